//! Random generator of syntactically valid documents as R2 trees (schema-free:
//! any names, no type checking). Dense in the lexical corner cases.

use vh_core::Rng;

use crate::ast::*;

/// Generator switches. Every switch that corresponds to a construct a parser
/// under test is known to mishandle can be turned off individually.
#[derive(Clone, Debug)]
pub struct GenConfig {
    /// enum values such as `nullable`, `trueish`, `falsey`
    pub enum_keyword_prefix: bool,
    /// directives on variable definitions
    pub variable_directives: bool,
    /// ... together with a default value (`$a: Int = 1 @d`)
    pub variable_default_and_directives: bool,
    /// `"""d""" schema { ... }`
    pub schema_description: bool,
    /// `extend interface A implements B`
    pub extend_interface_implements_only: bool,
    /// `\"""` inside block strings
    pub block_string_escaped_triple_quote: bool,
    /// whitespace-only lines shorter than the common indent inside block strings
    pub block_string_short_blank_line: bool,
    /// lone CR as a line terminator inside block strings
    pub block_string_lone_cr: bool,
    /// directive definitions without `repeatable`
    pub directive_not_repeatable: bool,
    /// the IntValue `-0`
    pub negative_zero_int: bool,
    /// integers outside the i64/u64 range
    pub int_beyond_u64: bool,
    /// keywords (`query`, `on`, `true`, `type` ...) used as ordinary names where the grammar allows
    pub keywords_as_names: bool,
    /// maximum nesting of selection sets
    pub max_selection_depth: usize,
    /// maximum nesting of list/object values
    pub max_value_depth: usize,
}

impl Default for GenConfig {
    fn default() -> GenConfig {
        GenConfig {
            enum_keyword_prefix: true,
            variable_directives: true,
            variable_default_and_directives: true,
            schema_description: true,
            extend_interface_implements_only: true,
            block_string_escaped_triple_quote: true,
            block_string_short_blank_line: true,
            block_string_lone_cr: true,
            directive_not_repeatable: true,
            negative_zero_int: true,
            int_beyond_u64: true,
            keywords_as_names: true,
            max_selection_depth: 4,
            max_value_depth: 3,
        }
    }
}

pub struct Gen<'a> {
    pub r: &'a mut Rng,
    pub cfg: &'a GenConfig,
    budget: i32,
}

const KEYWORDS: [&str; 22] = [
    "query",
    "mutation",
    "subscription",
    "fragment",
    "on",
    "true",
    "false",
    "null",
    "schema",
    "extend",
    "scalar",
    "type",
    "interface",
    "union",
    "enum",
    "input",
    "directive",
    "implements",
    "repeatable",
    "FIELD",
    "ENUM",
    "QUERY",
];

const NEAR_KEYWORDS: [&str; 16] = [
    "once", "only", "on_", "onX", "queryX", "query_", "fragments", "typename", "types", "inputs", "enumerate",
    "extended", "schema1", "unions", "directives", "repeatable_",
];

const KEYWORD_PREFIXED_ENUMS: [&str; 10] =
    ["nullable", "trueish", "falsey", "null_", "true1", "false_", "nullX", "trueTrue", "falsetrue", "nulls"];

fn starts_with_value_keyword(s: &str) -> bool {
    ["true", "false", "null"].iter().any(|k| s.starts_with(k))
}

impl<'a> Gen<'a> {
    pub fn new(r: &'a mut Rng, cfg: &'a GenConfig, budget: i32) -> Gen<'a> {
        Gen { r, cfg, budget }
    }

    fn spend(&mut self, n: i32) -> bool {
        self.budget -= n;
        self.budget > 0
    }

    // ---------------------------------------------------------------- names

    fn ident(&mut self) -> String {
        let first = b"_ABCDEFGHIJKLMNOPQRSTUVWXYZabcdefghijklmnopqrstuvwxyz";
        let rest = b"_0123456789ABCDEFGHIJKLMNOPQRSTUVWXYZabcdefghijklmnopqrstuvwxyz";
        let mut s = String::new();
        s.push(*self.r.pick(first) as char);
        let n = match self.r.below(8) {
            0 => 0,
            1..=5 => self.r.below(6),
            6 => self.r.below(14),
            _ => 20 + self.r.below(30),
        };
        for _ in 0..n {
            s.push(*self.r.pick(rest) as char);
        }
        s
    }

    /// Any Name (keywords included when enabled).
    pub fn name_str(&mut self) -> String {
        match self.r.below(10) {
            0 | 1 if self.cfg.keywords_as_names => self.r.pick(&KEYWORDS).to_string(),
            2 => self.r.pick(&NEAR_KEYWORDS).to_string(),
            3 => self.r.pick(&["a", "b", "id", "x", "_", "__typename", "_1", "A"]).to_string(),
            _ => self.ident(),
        }
    }
    fn name(&mut self) -> Name {
        Name::new(self.name_str())
    }
    fn fragment_name(&mut self) -> String {
        loop {
            let n = self.name_str();
            if n != "on" {
                return n;
            }
        }
    }
    fn enum_name(&mut self) -> String {
        if self.cfg.enum_keyword_prefix && self.r.chance(1, 6) {
            return self.r.pick(&KEYWORD_PREFIXED_ENUMS).to_string();
        }
        loop {
            let n = self.name_str();
            if matches!(n.as_str(), "true" | "false" | "null") {
                continue;
            }
            if !self.cfg.enum_keyword_prefix && starts_with_value_keyword(&n) {
                continue;
            }
            return n;
        }
    }

    // -------------------------------------------------------------- numbers

    fn digits(&mut self, n: usize) -> String {
        (0..n).map(|_| (b'0' + self.r.below(10) as u8) as char).collect()
    }
    fn integer_part(&mut self) -> String {
        let mut s = String::new();
        if self.r.chance(1, 3) {
            s.push('-');
        }
        match self.r.below(6) {
            0 => s.push('0'),
            1 | 2 => s.push((b'1' + self.r.below(9) as u8) as char),
            _ => {
                s.push((b'1' + self.r.below(9) as u8) as char);
                let n = self.r.below(8);
                s.push_str(&self.digits(n));
            }
        }
        s
    }
    pub fn int_lexeme(&mut self) -> String {
        loop {
            let s = match self.r.below(12) {
                0 => "0".to_string(),
                1 => "-0".to_string(),
                2 => self
                    .r
                    .pick(&[
                        "2147483647",
                        "-2147483648",
                        "2147483648",
                        "9223372036854775807",
                        "-9223372036854775808",
                        "9223372036854775808",
                        "18446744073709551615",
                        "9007199254740993",
                        "-1",
                        "10",
                    ])
                    .to_string(),
                3 => self
                    .r
                    .pick(&[
                        "18446744073709551616",
                        "-9223372036854775809",
                        "123456789012345678901234567890",
                        "-340282366920938463463374607431768211456",
                    ])
                    .to_string(),
                4 => {
                    let neg = self.r.bool();
                    let n = 15 + self.r.below(6);
                    format!("{}{}{}", if neg { "-" } else { "" }, 1 + self.r.below(9), self.digits(n))
                }
                _ => self.integer_part(),
            };
            if s == "-0" && !self.cfg.negative_zero_int {
                continue;
            }
            if !self.cfg.int_beyond_u64 && s.parse::<i64>().is_err() && s.parse::<u64>().is_err() {
                continue;
            }
            return s;
        }
    }
    pub fn float_lexeme(&mut self) -> String {
        if self.r.chance(1, 6) {
            return self
                .r
                .pick(&[
                    "0.0",
                    "-0.0",
                    "0e0",
                    "-0E-0",
                    "1e308",
                    "1.7976931348623157e308",
                    "-1.7976931348623157E+308",
                    "5e-324",
                    "4.9406564584124654e-324",
                    "2.2250738585072014e-308",
                    "1e-400",
                    "0.1",
                    "0.30000000000000004",
                    "123456789.123456789e-300",
                    "9007199254740993.0",
                    "1.0e0",
                    "1E5",
                    "100e-2",
                    "0.000001",
                    "1.031754631372895e-257",
                ])
                .to_string();
        }
        let mut s = self.integer_part();
        let kind = self.r.below(3); // 0 frac, 1 exp, 2 both
        if kind == 0 || kind == 2 {
            s.push('.');
            let n = 1 + if self.r.chance(1, 5) { self.r.below(18) } else { self.r.below(4) };
            s.push_str(&self.digits(n));
        }
        if kind == 1 || kind == 2 {
            s.push(if self.r.bool() { 'e' } else { 'E' });
            match self.r.below(3) {
                0 => s.push('+'),
                1 => s.push('-'),
                _ => {}
            }
            let n = 1 + self.r.below(2);
            let mut e = self.digits(n);
            if self.r.chance(1, 4) {
                e = format!("0{e}"); // leading zeros are fine in an exponent
            }
            s.push_str(&e);
        }
        s
    }

    // -------------------------------------------------------------- strings

    fn value_char(&mut self) -> char {
        match self.r.below(20) {
            0 => '"',
            1 => '\\',
            2 => *self.r.pick(&['\n', '\r', '\t', '\u{8}', '\u{c}', '/']),
            3 => char::from_u32(self.r.below(0x20) as u32).unwrap(),
            4 => *self.r.pick(&['\u{7f}', '\u{80}', '\u{85}', '\u{9f}', '\u{0}', '\u{1b}']),
            5 => *self.r.pick(&['\u{2028}', '\u{2029}', '\u{feff}', '\u{a0}', '\u{200b}', '\u{fffd}', '\u{ffff}']),
            6 => char::from_u32(0x80 + self.r.below(0x780) as u32).unwrap_or('é'),
            7 => char::from_u32(0x800 + self.r.below(0xD000) as u32).unwrap_or('中'),
            8 => char::from_u32(0x1_0000 + self.r.below(0xF_0000) as u32).unwrap_or('😀'),
            9 => *self.r.pick(&['u', 'n', '#', '{', '}', '$', ',', '\'', ' ', 'D', '8']),
            10 => *self.r.pick(&['\u{e000}', '\u{d7ff}', '\u{10ffff}', '\u{1f600}']),
            _ => (0x20u8 + self.r.below(0x5f) as u8) as char,
        }
    }

    /// A quoted string: random value, random spelling of every character.
    pub fn quoted_string(&mut self) -> StringValue {
        let len = match self.r.below(10) {
            0 => 0,
            1..=6 => 1 + self.r.below(6),
            _ => 1 + self.r.below(24),
        };
        let mut value = String::new();
        let mut raw = String::new();
        for _ in 0..len {
            let c = self.value_char();
            value.push(c);
            let cp = c as u32;
            let simple: Option<&str> = match c {
                '"' => Some("\\\""),
                '\\' => Some("\\\\"),
                '/' => Some("\\/"),
                '\u{8}' => Some("\\b"),
                '\u{c}' => Some("\\f"),
                '\n' => Some("\\n"),
                '\r' => Some("\\r"),
                '\t' => Some("\\t"),
                _ => None,
            };
            let literal_ok = !(c == '"' || c == '\\' || c == '\n' || c == '\r' || (cp < 0x20 && c != '\t'));
            let unicode_ok = cp <= 0xFFFF;
            let mut ways: Vec<u8> = vec![];
            if literal_ok {
                ways.extend([0, 0, 0]);
            }
            if simple.is_some() {
                ways.extend([1, 1]);
            }
            if unicode_ok {
                ways.push(2);
            }
            match *self.r.pick(&ways) {
                0 => raw.push(c),
                1 => raw.push_str(simple.unwrap()),
                _ => {
                    let h = format!("{cp:04x}");
                    let h: String = h
                        .chars()
                        .map(|d| if self.r.bool() { d.to_ascii_uppercase() } else { d })
                        .collect();
                    raw.push_str("\\u");
                    raw.push_str(&h);
                }
            }
        }
        StringValue { value, block: false, raw: Some(raw) }
    }

    fn ws(&mut self, n: usize) -> String {
        (0..n).map(|_| if self.r.chance(1, 4) { '\t' } else { ' ' }).collect()
    }

    fn block_line_content(&mut self) -> String {
        // never blank, never contains CR/LF; quotes only in controlled runs
        let mut s = String::new();
        let pieces = 1 + self.r.below(5);
        let mut last_quote = false;
        for _ in 0..pieces {
            let k = self.r.below(14);
            let piece: String = match k {
                0 if !last_quote => "\"".into(),
                1 if !last_quote => "\"\"".into(),
                2 | 3 if self.cfg.block_string_escaped_triple_quote => {
                    self.r.pick(&["\"\"\"", "\"\"\"\"", "\\\"\"\"", "\"\"\"\"\"\"", "a\"\"\"b"]).to_string()
                }
                4 => "\\".into(),
                5 => self.r.pick(&["\\n", "\\u0041", "\\\\", "\\t", "#", "\\q"]).to_string(),
                6 => self.r.pick(&["é", "中文", "😀", "\u{2028}", "\u{a0}", "\u{feff}", "\u{7f}"]).to_string(),
                7 => {
                    let n = 1 + self.r.below(3);
                    self.ws(n)
                }
                _ => {
                    let n = 1 + self.r.below(6);
                    (0..n).map(|_| (b'a' + self.r.below(26) as u8) as char).collect()
                }
            };
            if piece.is_empty() {
                continue;
            }
            last_quote = piece.ends_with('"') || piece.starts_with('"');
            s.push_str(&piece);
        }
        if s.chars().all(|c| c == ' ' || c == '\t') {
            s.push('x');
        }
        if !self.cfg.block_string_escaped_triple_quote && s.contains("\"\"\"") {
            s = s.replace("\"\"\"", "\"\" \"");
        }
        s
    }

    fn block_lt(&mut self) -> &'static str {
        match self.r.below(if self.cfg.block_string_lone_cr { 4 } else { 3 }) {
            0 | 1 => "\n",
            2 => "\r\n",
            _ => "\r",
        }
    }
    /// Append one line terminator; never an LF directly after a CR (that would
    /// fuse into a single CRLF).
    fn push_lt(&mut self, raw: &mut String) {
        let mut lt = self.block_lt();
        if raw.ends_with('\r') && lt == "\n" {
            lt = "\r\n";
        }
        raw.push_str(lt);
    }

    /// A block string built from its *value* outwards (lines, then an indent,
    /// blank lines and line terminators are added around it), so that the
    /// expected value does not depend on any implementation of
    /// `BlockStringValue()`.
    pub fn block_string(&mut self) -> StringValue {
        let is_ws = |c: char| c == ' ' || c == '\t';
        // empty value: only blank lines
        if self.r.chance(1, 12) {
            let mut raw = String::new();
            for i in 0..self.r.below(4) {
                if i > 0 {
                    self.push_lt(&mut raw);
                }
                let n = self.r.below(4);
                raw.push_str(&self.ws(n));
            }
            return StringValue { value: String::new(), block: true, raw: Some(raw) };
        }
        let n_lines = match self.r.below(6) {
            0 | 1 => 1,
            2 | 3 => 2 + self.r.below(2),
            _ => 2 + self.r.below(5),
        };
        // value lines: leading whitespace + content (+ trailing whitespace); interior lines may be blank
        let mut lines: Vec<String> = vec![];
        for i in 0..n_lines {
            let interior = i > 0 && i + 1 < n_lines;
            if interior && self.r.chance(1, 3) {
                let n = if self.r.bool() { 0 } else { self.r.below(5) };
                lines.push(self.ws(n));
                continue;
            }
            let lead = if self.r.bool() { 0 } else { self.r.below(5) };
            let mut l = self.ws(lead);
            l.push_str(&self.block_line_content());
            if self.r.chance(1, 6) {
                let n = 1 + self.r.below(2);
                l.push_str(&self.ws(n));
            }
            lines.push(l);
        }
        let first_on_opening_line = self.r.bool();
        // lines that take part in the common indent: all but the one on the opening line
        let from = if first_on_opening_line { 1 } else { 0 };
        let min_lead = lines[from..]
            .iter()
            .filter(|l| !l.chars().all(is_ws))
            .map(|l| l.chars().take_while(|c| is_ws(*c)).count())
            .min();
        if let Some(m) = min_lead {
            for l in lines[from..].iter_mut() {
                let k = m.min(l.chars().take_while(|c| is_ws(*c)).count());
                *l = l.chars().skip(k).collect();
            }
        }
        // now the minimum indent of the participating non-blank lines is 0
        let value = lines.join("\n");
        let indent = if self.r.chance(1, 4) { 0 } else { 1 + self.r.below(6) };
        let esc = |s: &str| s.replace("\"\"\"", "\\\"\"\"");
        let mut raw = String::new();
        if !first_on_opening_line {
            // opening line and further leading blank lines
            let n = self.r.below(3);
            raw.push_str(&self.ws(n));
            self.push_lt(&mut raw);
            for _ in 0..self.r.below(3) {
                let n = self.r.below(8);
                raw.push_str(&self.ws(n));
                self.push_lt(&mut raw);
            }
        }
        for (i, l) in lines.iter().enumerate() {
            if i > 0 {
                self.push_lt(&mut raw);
            }
            if i == 0 && first_on_opening_line {
                raw.push_str(&esc(l));
                continue;
            }
            let blank = l.chars().all(is_ws);
            if blank && l.is_empty() {
                // value line "": empty raw line, or (feature) whitespace shorter than the indent,
                // or exactly the indent
                match self.r.below(3) {
                    0 => {}
                    1 if self.cfg.block_string_short_blank_line && indent >= 2 => {
                        let n = 1 + self.r.below(indent - 1);
                        raw.push_str(&self.ws(n));
                    }
                    _ => raw.push_str(&self.ws(indent)),
                }
                continue;
            }
            raw.push_str(&self.ws(indent));
            raw.push_str(&esc(l));
        }
        // trailing blank lines; forced when the last character would merge with the closing quotes
        let last = raw.chars().last();
        let mut trailing = if self.r.chance(1, 3) { 1 + self.r.below(2) } else { 0 };
        if matches!(last, Some('"') | Some('\\')) && trailing == 0 {
            trailing = 1;
        }
        for _ in 0..trailing {
            self.push_lt(&mut raw);
            let n = self.r.below(8);
            raw.push_str(&self.ws(n));
        }
        StringValue { value, block: true, raw: Some(raw) }
    }

    pub fn string(&mut self) -> StringValue {
        if self.r.chance(1, 3) { self.block_string() } else { self.quoted_string() }
    }

    // --------------------------------------------------------------- values

    pub fn value(&mut self, konst: bool, depth: usize) -> Value {
        self.spend(1);
        let leaf = depth == 0 || self.budget <= 0 || self.r.chance(3, 5);
        let kind = if leaf {
            match self.r.below(if konst { 9 } else { 11 }) {
                0 | 1 => ValueKind::Int(self.int_lexeme()),
                2 | 3 => ValueKind::Float(self.float_lexeme()),
                4 | 5 => ValueKind::String(self.string()),
                6 => ValueKind::Boolean(self.r.bool()),
                7 => ValueKind::Null,
                8 => ValueKind::Enum(self.enum_name()),
                _ => ValueKind::Variable(self.name_str()),
            }
        } else if self.r.bool() {
            let n = self.r.below(4);
            ValueKind::List((0..n).map(|_| self.value(konst, depth - 1)).collect())
        } else {
            let n = self.r.below(4);
            let mut fs: Vec<(Name, Value)> = vec![];
            for _ in 0..n {
                let k = self.name_str();
                if fs.iter().any(|(n, _)| n.value == k) {
                    continue;
                }
                let v = self.value(konst, depth - 1);
                fs.push((Name::new(k), v));
            }
            ValueKind::Object(fs)
        };
        Value::new(kind)
    }

    pub fn ty(&mut self, depth: usize) -> Type {
        let non_null = self.r.bool();
        if depth > 0 && self.r.chance(2, 5) {
            Type::list(self.ty(depth - 1), non_null)
        } else {
            let n = if self.r.chance(1, 3) {
                self.r.pick(&["Int", "String", "ID", "Boolean", "Float"]).to_string()
            } else {
                self.name_str()
            };
            Type::named(n, non_null)
        }
    }

    fn arguments(&mut self, konst: bool) -> Vec<Argument> {
        if self.r.chance(3, 5) || self.budget <= 0 {
            return vec![];
        }
        let n = 1 + self.r.below(3);
        (0..n)
            .map(|_| Argument { name: self.name(), value: self.value(konst, self.cfg.max_value_depth) })
            .collect()
    }

    fn directives(&mut self, konst: bool) -> Vec<Directive> {
        if self.r.chance(2, 3) || self.budget <= 0 {
            return vec![];
        }
        let n = 1 + self.r.below(2);
        (0..n)
            .map(|_| {
                self.spend(1);
                let name = if self.r.chance(1, 3) {
                    Name::new(*self.r.pick(&["skip", "include", "deprecated", "specifiedBy"]))
                } else {
                    self.name()
                };
                Directive { pos: Pos::default(), name, arguments: self.arguments(konst) }
            })
            .collect()
    }

    // ----------------------------------------------------------- executable

    fn selection_set(&mut self, depth: usize) -> SelectionSet {
        let n = 1 + if self.budget > 0 { self.r.below(4) } else { 0 };
        let mut items = vec![];
        for _ in 0..n {
            self.spend(2);
            let can_nest = depth > 1 && self.budget > 0;
            let it = match self.r.below(10) {
                0 | 1 => Selection::FragmentSpread(FragmentSpread {
                    pos: Pos::default(),
                    name: Name::new(self.fragment_name()),
                    directives: self.directives(false),
                }),
                2 | 3 if can_nest => Selection::InlineFragment(InlineFragment {
                    pos: Pos::default(),
                    type_condition: if self.r.chance(2, 3) {
                        Some(TypeCondition { pos: Pos::default(), name: self.name() })
                    } else {
                        None
                    },
                    directives: self.directives(false),
                    selection_set: self.selection_set(depth - 1),
                }),
                _ => Selection::Field(Field {
                    pos: Pos::default(),
                    alias: if self.r.chance(1, 4) { Some(self.name()) } else { None },
                    name: self.name(),
                    arguments: self.arguments(false),
                    directives: self.directives(false),
                    selection_set: if can_nest && self.r.chance(2, 5) {
                        Some(self.selection_set(depth - 1))
                    } else {
                        None
                    },
                }),
            };
            items.push(it);
        }
        SelectionSet { pos: Pos::default(), items }
    }

    fn variable_definition(&mut self) -> VariableDefinition {
        self.spend(2);
        let default_value = if self.r.chance(1, 2) { Some(self.value(true, self.cfg.max_value_depth)) } else { None };
        let mut directives = if self.cfg.variable_directives { self.directives(true) } else { vec![] };
        if default_value.is_some() && !self.cfg.variable_default_and_directives {
            directives.clear();
        }
        VariableDefinition {
            pos: Pos::default(),
            name: self.name(),
            ty: self.ty(3),
            default_value,
            directives,
        }
    }

    fn operation(&mut self, name: Option<String>) -> OperationDefinition {
        let kind = *self.r.pick(&[
            OperationKind::Query,
            OperationKind::Query,
            OperationKind::Mutation,
            OperationKind::Subscription,
        ]);
        let n_vars = if self.r.chance(1, 2) { 0 } else { 1 + self.r.below(3) };
        let variables = (0..n_vars).map(|_| self.variable_definition()).collect();
        OperationDefinition {
            pos: Pos::default(),
            kind,
            shorthand: false,
            name: name.map(Name::new),
            variables,
            directives: self.directives(false),
            selection_set: self.selection_set(self.cfg.max_selection_depth),
        }
    }

    /// An executable document that satisfies the document-level rules
    /// (unique operation and fragment names, lone anonymous operation).
    pub fn executable_document(&mut self) -> Document {
        let mut defs: Vec<Definition> = vec![];
        if self.r.chance(2, 5) {
            // a single anonymous operation
            if self.r.bool() {
                defs.push(Definition::Operation(OperationDefinition {
                    pos: Pos::default(),
                    kind: OperationKind::Query,
                    shorthand: true,
                    name: None,
                    variables: vec![],
                    directives: vec![],
                    selection_set: self.selection_set(self.cfg.max_selection_depth),
                }));
            } else {
                defs.push(Definition::Operation(self.operation(None)));
            }
        } else {
            let n = 1 + self.r.below(3);
            let mut names: Vec<String> = vec![];
            while names.len() < n {
                let c = self.name_str();
                if !names.contains(&c) {
                    names.push(c);
                }
            }
            for nm in names {
                defs.push(Definition::Operation(self.operation(Some(nm))));
            }
        }
        let nf = if self.r.chance(1, 2) { 0 } else { 1 + self.r.below(3) };
        let mut fnames: Vec<String> = vec![];
        while fnames.len() < nf {
            let c = self.fragment_name();
            if !fnames.contains(&c) {
                fnames.push(c);
            }
        }
        for nm in fnames {
            self.spend(2);
            defs.push(Definition::Fragment(FragmentDefinition {
                pos: Pos::default(),
                name: Name::new(nm),
                type_condition: TypeCondition { pos: Pos::default(), name: self.name() },
                directives: self.directives(false),
                selection_set: self.selection_set(self.cfg.max_selection_depth),
            }));
        }
        self.r.shuffle(&mut defs);
        Document { definitions: defs }
    }

    // ---------------------------------------------------------- type system

    fn description(&mut self) -> Option<Description> {
        if self.r.chance(3, 5) {
            return None;
        }
        Some(Description { pos: Pos::default(), value: self.string() })
    }

    fn input_value(&mut self) -> InputValueDefinition {
        self.spend(2);
        InputValueDefinition {
            pos: Pos::default(),
            description: self.description(),
            name: self.name(),
            ty: self.ty(3),
            default_value: if self.r.chance(1, 3) { Some(self.value(true, self.cfg.max_value_depth)) } else { None },
            directives: self.directives(true),
        }
    }

    fn field_definitions(&mut self, at_least_one: bool) -> Vec<FieldDefinition> {
        let n = if at_least_one { 1 + self.r.below(3) } else { self.r.below(4) };
        (0..n)
            .map(|_| {
                self.spend(2);
                FieldDefinition {
                    pos: Pos::default(),
                    description: self.description(),
                    name: self.name(),
                    arguments: if self.r.chance(1, 3) {
                        (0..1 + self.r.below(3)).map(|_| self.input_value()).collect()
                    } else {
                        vec![]
                    },
                    ty: self.ty(3),
                    directives: self.directives(true),
                }
            })
            .collect()
    }

    /// 1..=max random names
    fn names(&mut self, max: usize) -> Vec<Name> {
        let n = 1 + self.r.below(max);
        (0..n).map(|_| self.name()).collect()
    }

    fn type_definition(&mut self) -> TypeDefinition {
        let extend = self.r.chance(1, 4);
        let description = if extend { None } else { self.description() };
        let name = self.name();
        let mut directives = self.directives(true);
        let kind = match self.r.below(6) {
            0 => {
                if extend && directives.is_empty() {
                    directives = vec![Directive { pos: Pos::default(), name: self.name(), arguments: vec![] }];
                }
                TypeDefKind::Scalar
            }
            k @ (1 | 2) => {
                let mut implements = if self.r.chance(1, 2) { self.names(3) } else { vec![] };
                let mut fields = self.field_definitions(false);
                if extend && directives.is_empty() && fields.is_empty() {
                    // an extension must add something
                    if k == 2 && !self.cfg.extend_interface_implements_only {
                        fields = self.field_definitions(true);
                    } else if implements.is_empty() {
                        if self.r.bool() {
                            implements = self.names(2);
                            if k == 2 && !self.cfg.extend_interface_implements_only {
                                fields = self.field_definitions(true);
                            }
                        } else {
                            fields = self.field_definitions(true);
                        }
                    }
                }
                if k == 1 {
                    TypeDefKind::Object { implements, fields }
                } else {
                    TypeDefKind::Interface { implements, fields }
                }
            }
            3 => {
                let mut members = if self.r.chance(3, 4) { self.names(4) } else { vec![] };
                if extend && directives.is_empty() && members.is_empty() {
                    members = self.names(2);
                }
                TypeDefKind::Union { members }
            }
            4 => {
                let force = extend && directives.is_empty();
                let n = if force || self.r.chance(3, 4) { 1 + self.r.below(4) } else { 0 };
                let values = (0..n)
                    .map(|_| EnumValueDefinition {
                        pos: Pos::default(),
                        description: self.description(),
                        value: Name::new(self.enum_name()),
                        directives: self.directives(true),
                    })
                    .collect();
                TypeDefKind::Enum { values }
            }
            _ => {
                let force = extend && directives.is_empty();
                let n = if force || self.r.chance(3, 4) { 1 + self.r.below(3) } else { 0 };
                TypeDefKind::InputObject { fields: (0..n).map(|_| self.input_value()).collect() }
            }
        };
        TypeDefinition { pos: Pos::default(), extend, description, name, directives, kind }
    }

    fn schema_definition(&mut self) -> SchemaDefinition {
        let extend = self.r.chance(1, 3);
        let mut kinds = vec![OperationKind::Query, OperationKind::Mutation, OperationKind::Subscription];
        self.r.shuffle(&mut kinds);
        let mut directives = self.directives(true);
        let mut roots: Vec<OperationKind> = if extend {
            let n = self.r.below(4);
            kinds.into_iter().take(n).collect()
        } else {
            let n = 1 + self.r.below(3);
            let mut ks: Vec<OperationKind> = kinds.into_iter().take(n).collect();
            if !ks.contains(&OperationKind::Query) {
                ks[0] = OperationKind::Query;
            }
            ks
        };
        if extend && roots.is_empty() && directives.is_empty() {
            if self.r.bool() {
                roots.push(OperationKind::Mutation);
            } else {
                directives = vec![Directive { pos: Pos::default(), name: self.name(), arguments: vec![] }];
            }
        }
        SchemaDefinition {
            pos: Pos::default(),
            extend,
            description: if !extend && self.cfg.schema_description { self.description() } else { None },
            directives,
            root_operations: roots
                .into_iter()
                .map(|kind| RootOperation { pos: Pos::default(), kind, type_name: self.name() })
                .collect(),
        }
    }

    fn directive_definition(&mut self) -> DirectiveDefinition {
        let n = 1 + self.r.below(4);
        DirectiveDefinition {
            pos: Pos::default(),
            description: self.description(),
            name: self.name(),
            arguments: if self.r.chance(1, 2) {
                (0..1 + self.r.below(3)).map(|_| self.input_value()).collect()
            } else {
                vec![]
            },
            repeatable: self.r.chance(1, 3) || !self.cfg.directive_not_repeatable,
            locations: (0..n).map(|_| Name::new(*self.r.pick(&DIRECTIVE_LOCATIONS))).collect(),
        }
    }

    /// A type-system document (definitions and extensions).
    pub fn type_system_document(&mut self) -> Document {
        let n = 1 + self.r.below(5);
        let mut defs = vec![];
        for _ in 0..n {
            self.spend(3);
            let d = match self.r.below(8) {
                0 => TypeSystemDefinition::Schema(self.schema_definition()),
                1 | 2 => TypeSystemDefinition::Directive(self.directive_definition()),
                _ => TypeSystemDefinition::Type(self.type_definition()),
            };
            defs.push(Definition::TypeSystem(d));
            if self.budget <= 0 {
                break;
            }
        }
        Document { definitions: defs }
    }
}

/// One random executable document.
pub fn gen_executable(r: &mut Rng, cfg: &GenConfig) -> Document {
    let budget = 10 + r.below(60) as i32;
    Gen::new(r, cfg, budget).executable_document()
}

/// One random type-system document.
pub fn gen_type_system(r: &mut Rng, cfg: &GenConfig) -> Document {
    let budget = 10 + r.below(60) as i32;
    Gen::new(r, cfg, budget).type_system_document()
}
