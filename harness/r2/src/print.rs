//! Printer: R2 tree -> token sequence -> text with pluggable "noise" (ignored
//! tokens) in every gap, recording the exact (line, column) of each token.

use vh_core::Rng;

use crate::ast::*;
use crate::lexer::{LineIndex, block_string_value, is_name_continue};

#[derive(Clone, Copy, PartialEq, Eq, Debug, Hash)]
pub enum PKind {
    Punct,
    Name,
    Int,
    Float,
    Str,
    BlockStr,
}

/// One lexical token of the printed document.
#[derive(Clone, Debug, PartialEq, Eq)]
pub struct PToken {
    pub text: String,
    pub kind: PKind,
    /// tokens of one (outermost) type reference share an id
    pub type_id: Option<u32>,
    /// the `on` keyword of a type condition
    pub type_condition_on: bool,
}

impl PToken {
    pub fn new(text: impl Into<String>, kind: PKind) -> PToken {
        PToken { text: text.into(), kind, type_id: None, type_condition_on: false }
    }
}

/// The place between two tokens (or before the first / after the last).
pub struct Gap<'a> {
    /// gap before token `index`; `index == total` is the trailing gap
    pub index: usize,
    pub total: usize,
    pub prev: Option<&'a PToken>,
    pub next: Option<&'a PToken>,
    /// the neighbours would lex differently without a separator
    pub required: bool,
    /// strictly inside one type reference (`[ Int ! ]`)
    pub in_type: bool,
    /// between the `on` of a type condition and the type name
    pub after_on: bool,
}

/// Source of ignored tokens. Must return only ignored material (spaces, tabs,
/// line terminators, commas, BOM, `#` comments ended by a line terminator
/// unless in the trailing gap). When `gap.required` and the result is empty
/// the renderer inserts one space.
pub trait Noise {
    fn gap(&mut self, gap: &Gap) -> String;
}
impl<F: FnMut(&Gap) -> String> Noise for F {
    fn gap(&mut self, gap: &Gap) -> String {
        self(gap)
    }
}

/// Where a token landed in the text.
#[derive(Clone, Copy, Debug, PartialEq, Eq)]
pub struct TokenEntry {
    pub line: usize,
    pub col: usize,
    /// offsets in Unicode scalar values, [start, end)
    pub char_start: usize,
    pub char_end: usize,
}

pub struct Rendered {
    pub text: String,
    /// `tokens.len() + 1` strings: text == gaps[0] + tok[0] + gaps[1] + ... + gaps[n]
    pub gaps: Vec<String>,
    pub table: Vec<TokenEntry>,
}

pub struct Printed {
    pub text: String,
    pub tokens: Vec<PToken>,
    pub gaps: Vec<String>,
    /// the token table: position of every token of `tokens`
    pub table: Vec<TokenEntry>,
    /// the input tree with every `pos` set to the position of the node's first token
    pub doc: Document,
    /// for every `Pos` of the tree in `for_each_pos_mut` order: index of its token
    pub pos_tokens: Vec<usize>,
    /// index of the first token of every top-level definition
    pub def_starts: Vec<usize>,
}

pub fn needs_separator(prev: &PToken, next: &PToken) -> bool {
    let first = next.text.chars().next();
    let Some(first) = first else { return false };
    match prev.kind {
        PKind::Name | PKind::Int | PKind::Float => {
            is_name_continue(first) || (first == '.' && prev.kind != PKind::Name)
        }
        PKind::Str | PKind::BlockStr => matches!(next.kind, PKind::Str | PKind::BlockStr),
        PKind::Punct => false,
    }
}

/// Lay a token sequence out with noise and compute the token table.
pub fn render(tokens: &[PToken], noise: &mut dyn Noise) -> Rendered {
    let n = tokens.len();
    let mut gaps = Vec::with_capacity(n + 1);
    let mut text = String::new();
    let mut starts = Vec::with_capacity(n);
    let mut chars = 0usize;
    for i in 0..=n {
        let prev = if i > 0 { Some(&tokens[i - 1]) } else { None };
        let next = tokens.get(i);
        let required = match (prev, next) {
            (Some(p), Some(q)) => needs_separator(p, q),
            _ => false,
        };
        let in_type = match (prev, next) {
            (Some(p), Some(q)) => p.type_id.is_some() && p.type_id == q.type_id,
            _ => false,
        };
        // any `on` counts (also a field called `on`, or an `on` put there by a mutation)
        // (a mutated token may also merely end in ` on`; be generous)
        let after_on = prev.is_some_and(|p| p.type_condition_on || p.text.ends_with("on"));
        let g = Gap { index: i, total: n, prev, next, required, in_type, after_on };
        let mut s = noise.gap(&g);
        if required && s.is_empty() {
            s.push(' ');
        }
        chars += s.chars().count();
        text.push_str(&s);
        gaps.push(s);
        if let Some(t) = next {
            let len = t.text.chars().count();
            starts.push((chars, chars + len));
            chars += len;
            text.push_str(&t.text);
        }
    }
    let idx = LineIndex::new(&text);
    let table = starts
        .into_iter()
        .map(|(s, e)| {
            let (line, col) = idx.pos(s);
            TokenEntry { line, col, char_start: s, char_end: e }
        })
        .collect();
    Rendered { text, gaps, table }
}

// ------------------------------------------------------------ string spelling

/// A quoted-string spelling of `value` with only the necessary escapes.
pub fn encode_quoted(value: &str) -> String {
    let mut s = String::new();
    for c in value.chars() {
        match c {
            '"' => s.push_str("\\\""),
            '\\' => s.push_str("\\\\"),
            '\n' => s.push_str("\\n"),
            '\r' => s.push_str("\\r"),
            '\t' => s.push_str("\\t"),
            c if (c as u32) < 0x20 => s.push_str(&format!("\\u{:04X}", c as u32)),
            c => s.push(c),
        }
    }
    s
}

/// A block-string spelling of `value`, if one exists in the simple shape
/// `"""` LF value LF `"""`.
pub fn encode_block(value: &str) -> Option<String> {
    if value.chars().any(|c| c == '\r' || ((c as u32) < 0x20 && c != '\n' && c != '\t')) {
        return None;
    }
    let raw = format!("\n{value}\n");
    if block_string_value(&raw) != value {
        return None;
    }
    Some(raw.replace("\"\"\"", "\\\"\"\""))
}

fn string_token(s: &StringValue) -> PToken {
    if s.block {
        let raw = match &s.raw {
            Some(r) => Some(r.clone()),
            None => encode_block(&s.value),
        };
        if let Some(raw) = raw {
            return PToken::new(format!("\"\"\"{raw}\"\"\""), PKind::BlockStr);
        }
    }
    let raw = match (&s.raw, s.block) {
        (Some(r), false) => r.clone(),
        _ => encode_quoted(&s.value),
    };
    PToken::new(format!("\"{raw}\""), PKind::Str)
}

// -------------------------------------------------------------------- emitter

/// Syntactic choices that are not part of the tree.
#[derive(Clone, Copy, Debug, Default)]
pub struct PrintOptions {
    /// bit k decides whether the k-th optional leading `&` / `|` is printed
    pub leading_separators: u64,
}

struct Em {
    toks: Vec<PToken>,
    type_ids: u32,
    cur_type: Option<u32>,
    lead: u64,
}

impl Em {
    fn at(&self) -> Pos {
        // placeholder: line = index of the next token
        Pos { line: self.toks.len(), col: usize::MAX }
    }
    fn push(&mut self, text: &str, kind: PKind) {
        let mut t = PToken::new(text, kind);
        t.type_id = self.cur_type;
        self.toks.push(t);
    }
    fn punct(&mut self, p: &str) {
        self.push(p, PKind::Punct);
    }
    fn kw(&mut self, k: &str) {
        self.push(k, PKind::Name);
    }
    fn name(&mut self, n: &mut Name) {
        n.pos = self.at();
        self.push(&n.value.clone(), PKind::Name);
    }
    fn lead(&mut self) -> bool {
        let b = self.lead & 1 == 1;
        self.lead = self.lead.rotate_right(1);
        b
    }

    fn value(&mut self, v: &mut Value) {
        v.pos = self.at();
        match &mut v.kind {
            ValueKind::Variable(n) => {
                self.punct("$");
                self.push(&n.clone(), PKind::Name);
            }
            ValueKind::Int(s) => self.push(&s.clone(), PKind::Int),
            ValueKind::Float(s) => self.push(&s.clone(), PKind::Float),
            ValueKind::String(s) => self.toks.push(string_token(s)),
            ValueKind::Boolean(b) => self.kw(if *b { "true" } else { "false" }),
            ValueKind::Null => self.kw("null"),
            ValueKind::Enum(n) => self.push(&n.clone(), PKind::Name),
            ValueKind::List(xs) => {
                self.punct("[");
                for x in xs {
                    self.value(x);
                }
                self.punct("]");
            }
            ValueKind::Object(fs) => {
                self.punct("{");
                for (n, x) in fs {
                    self.name(n);
                    self.punct(":");
                    self.value(x);
                }
                self.punct("}");
            }
        }
    }

    fn ty(&mut self, t: &mut Type) {
        let outer = self.cur_type.is_none();
        if outer {
            self.type_ids += 1;
            self.cur_type = Some(self.type_ids);
        }
        t.pos = self.at();
        let nn = t.non_null;
        match &mut t.base {
            TypeBase::Named(n) => self.push(&n.clone(), PKind::Name),
            TypeBase::List(inner) => {
                self.punct("[");
                self.ty(inner);
                self.punct("]");
            }
        }
        if nn {
            self.punct("!");
        }
        if outer {
            self.cur_type = None;
        }
    }

    fn arguments(&mut self, args: &mut [Argument]) {
        if args.is_empty() {
            return;
        }
        self.punct("(");
        for a in args {
            self.name(&mut a.name);
            self.punct(":");
            self.value(&mut a.value);
        }
        self.punct(")");
    }

    fn directives(&mut self, ds: &mut [Directive]) {
        for d in ds {
            d.pos = self.at();
            self.punct("@");
            self.name(&mut d.name);
            self.arguments(&mut d.arguments);
        }
    }

    fn type_condition(&mut self, tc: &mut TypeCondition) {
        tc.pos = self.at();
        self.kw("on");
        self.toks.last_mut().unwrap().type_condition_on = true;
        self.name(&mut tc.name);
    }

    fn selection_set(&mut self, s: &mut SelectionSet) {
        s.pos = self.at();
        self.punct("{");
        for it in &mut s.items {
            match it {
                Selection::Field(f) => {
                    f.pos = self.at();
                    if let Some(a) = &mut f.alias {
                        self.name(a);
                        self.punct(":");
                    }
                    self.name(&mut f.name);
                    self.arguments(&mut f.arguments);
                    self.directives(&mut f.directives);
                    if let Some(ss) = &mut f.selection_set {
                        self.selection_set(ss);
                    }
                }
                Selection::FragmentSpread(sp) => {
                    sp.pos = self.at();
                    self.punct("...");
                    self.name(&mut sp.name);
                    self.directives(&mut sp.directives);
                }
                Selection::InlineFragment(inf) => {
                    inf.pos = self.at();
                    self.punct("...");
                    if let Some(tc) = &mut inf.type_condition {
                        self.type_condition(tc);
                    }
                    self.directives(&mut inf.directives);
                    self.selection_set(&mut inf.selection_set);
                }
            }
        }
        self.punct("}");
    }

    fn description(&mut self, d: &mut Option<Description>) {
        if let Some(d) = d {
            d.pos = self.at();
            self.toks.push(string_token(&d.value));
        }
    }

    fn input_value(&mut self, v: &mut InputValueDefinition) {
        v.pos = self.at();
        self.description(&mut v.description);
        self.name(&mut v.name);
        self.punct(":");
        self.ty(&mut v.ty);
        if let Some(d) = &mut v.default_value {
            self.punct("=");
            self.value(d);
        }
        self.directives(&mut v.directives);
    }

    fn implements(&mut self, names: &mut [Name]) {
        if names.is_empty() {
            return;
        }
        self.kw("implements");
        let lead = self.lead();
        for (i, n) in names.iter_mut().enumerate() {
            if i > 0 || lead {
                self.punct("&");
            }
            self.name(n);
        }
    }

    fn fields(&mut self, fs: &mut [FieldDefinition]) {
        if fs.is_empty() {
            return;
        }
        self.punct("{");
        for f in fs {
            f.pos = self.at();
            self.description(&mut f.description);
            self.name(&mut f.name);
            if !f.arguments.is_empty() {
                self.punct("(");
                for a in &mut f.arguments {
                    self.input_value(a);
                }
                self.punct(")");
            }
            self.punct(":");
            self.ty(&mut f.ty);
            self.directives(&mut f.directives);
        }
        self.punct("}");
    }

    fn type_system(&mut self, d: &mut TypeSystemDefinition) {
        match d {
            TypeSystemDefinition::Schema(s) => {
                s.pos = self.at();
                self.description(&mut s.description);
                if s.extend {
                    self.kw("extend");
                }
                self.kw("schema");
                self.directives(&mut s.directives);
                if !s.root_operations.is_empty() {
                    self.punct("{");
                    for r in &mut s.root_operations {
                        r.pos = self.at();
                        self.kw(r.kind.keyword());
                        self.punct(":");
                        self.name(&mut r.type_name);
                    }
                    self.punct("}");
                }
            }
            TypeSystemDefinition::Type(t) => {
                t.pos = self.at();
                self.description(&mut t.description);
                if t.extend {
                    self.kw("extend");
                }
                self.kw(t.kind.keyword());
                self.name(&mut t.name);
                if let TypeDefKind::Object { implements, .. } | TypeDefKind::Interface { implements, .. } = &mut t.kind {
                    self.implements(implements);
                }
                self.directives(&mut t.directives);
                match &mut t.kind {
                    TypeDefKind::Scalar => {}
                    TypeDefKind::Object { fields, .. } | TypeDefKind::Interface { fields, .. } => self.fields(fields),
                    TypeDefKind::Union { members } => {
                        if !members.is_empty() {
                            self.punct("=");
                            let lead = self.lead();
                            for (i, m) in members.iter_mut().enumerate() {
                                if i > 0 || lead {
                                    self.punct("|");
                                }
                                self.name(m);
                            }
                        }
                    }
                    TypeDefKind::Enum { values } => {
                        if !values.is_empty() {
                            self.punct("{");
                            for v in values {
                                v.pos = self.at();
                                self.description(&mut v.description);
                                self.name(&mut v.value);
                                self.directives(&mut v.directives);
                            }
                            self.punct("}");
                        }
                    }
                    TypeDefKind::InputObject { fields } => {
                        if !fields.is_empty() {
                            self.punct("{");
                            for v in fields {
                                self.input_value(v);
                            }
                            self.punct("}");
                        }
                    }
                }
            }
            TypeSystemDefinition::Directive(d) => {
                d.pos = self.at();
                self.description(&mut d.description);
                self.kw("directive");
                self.punct("@");
                self.name(&mut d.name);
                if !d.arguments.is_empty() {
                    self.punct("(");
                    for a in &mut d.arguments {
                        self.input_value(a);
                    }
                    self.punct(")");
                }
                if d.repeatable {
                    self.kw("repeatable");
                }
                self.kw("on");
                let lead = self.lead();
                for (i, l) in d.locations.iter_mut().enumerate() {
                    if i > 0 || lead {
                        self.punct("|");
                    }
                    self.name(l);
                }
            }
        }
    }

    fn document(&mut self, doc: &mut Document) {
        for d in &mut doc.definitions {
            match d {
                Definition::Operation(o) => {
                    o.pos = self.at();
                    if !o.shorthand {
                        self.kw(o.kind.keyword());
                        if let Some(n) = &mut o.name {
                            self.name(n);
                        }
                        if !o.variables.is_empty() {
                            self.punct("(");
                            for v in &mut o.variables {
                                v.pos = self.at();
                                self.punct("$");
                                self.name(&mut v.name);
                                self.punct(":");
                                self.ty(&mut v.ty);
                                if let Some(d) = &mut v.default_value {
                                    self.punct("=");
                                    self.value(d);
                                }
                                self.directives(&mut v.directives);
                            }
                            self.punct(")");
                        }
                        self.directives(&mut o.directives);
                    }
                    self.selection_set(&mut o.selection_set);
                }
                Definition::Fragment(f) => {
                    f.pos = self.at();
                    self.kw("fragment");
                    self.name(&mut f.name);
                    self.type_condition(&mut f.type_condition);
                    self.directives(&mut f.directives);
                    self.selection_set(&mut f.selection_set);
                }
                Definition::TypeSystem(t) => self.type_system(t),
            }
        }
    }
}

/// The token sequence of a tree, and the tree with every `pos.line` set to the
/// *index* of the node's first token (`pos.col == usize::MAX`).
pub fn tokens_of(doc: &Document, opts: &PrintOptions) -> (Vec<PToken>, Document) {
    let mut em = Em { toks: vec![], type_ids: 0, cur_type: None, lead: opts.leading_separators };
    let mut d = doc.clone();
    em.document(&mut d);
    (em.toks, d)
}

/// Print a tree with noise. `Printed::doc` is the tree with exact positions.
pub fn print(doc: &Document, opts: &PrintOptions, noise: &mut dyn Noise) -> Printed {
    let (tokens, mut skel) = tokens_of(doc, opts);
    let r = render(&tokens, noise);
    let def_starts: Vec<usize> = skel
        .definitions
        .iter()
        .map(|d| match d {
            Definition::Operation(o) => o.pos.line,
            Definition::Fragment(f) => f.pos.line,
            Definition::TypeSystem(TypeSystemDefinition::Schema(s)) => s.pos.line,
            Definition::TypeSystem(TypeSystemDefinition::Type(s)) => s.pos.line,
            Definition::TypeSystem(TypeSystemDefinition::Directive(s)) => s.pos.line,
        })
        .collect();
    let mut pos_tokens = vec![];
    for_each_pos_mut(&mut skel, &mut |p, label| {
        assert!(p.col == usize::MAX, "printer did not place the position of a {label}");
        let k = p.line;
        pos_tokens.push(k);
        let e = r.table[k];
        *p = Pos::new(e.line, e.col);
    });
    Printed { text: r.text, tokens, gaps: r.gaps, table: r.table, doc: skel, pos_tokens, def_starts }
}

/// Compact printing: one space where a separator is required, nothing elsewhere.
pub fn print_compact(doc: &Document) -> String {
    let mut n = |g: &Gap| if g.required { " ".to_string() } else { String::new() };
    print(doc, &PrintOptions::default(), &mut n).text
}

// ---------------------------------------------------------------------- noise

/// What a random noise source may emit.
#[derive(Clone, Debug)]
pub struct NoiseConfig {
    pub spaces: bool,
    pub tabs: bool,
    pub lf: bool,
    pub crlf: bool,
    pub lone_cr: bool,
    pub commas: bool,
    pub comments: bool,
    pub non_ascii_comments: bool,
    /// U+FEFF as the very first character of the document
    pub bom_at_start: bool,
    /// U+FEFF anywhere between tokens (an ignored token in the specification)
    pub bom_anywhere: bool,
    /// noise strictly inside type references (`[ Int ! ]`)
    pub inside_types: bool,
    /// comments between the `on` of a type condition and the type name
    pub comment_after_on: bool,
    /// every gap between two tokens gets at least one character
    pub always_separate: bool,
    /// probability (per cent) that a non-required gap is non-empty
    pub density: u32,
}

impl NoiseConfig {
    /// D: spaces and LF only.
    pub fn plain() -> NoiseConfig {
        NoiseConfig {
            spaces: true,
            tabs: false,
            lf: true,
            crlf: false,
            lone_cr: false,
            commas: false,
            comments: false,
            non_ascii_comments: false,
            bom_at_start: false,
            bom_anywhere: false,
            inside_types: false,
            comment_after_on: false,
            always_separate: false,
            density: 60,
        }
    }
    /// D': everything the lexical grammar ignores.
    pub fn hostile() -> NoiseConfig {
        NoiseConfig {
            spaces: true,
            tabs: true,
            lf: true,
            crlf: true,
            lone_cr: true,
            commas: true,
            comments: true,
            non_ascii_comments: true,
            bom_at_start: true,
            bom_anywhere: true,
            inside_types: true,
            comment_after_on: true,
            always_separate: false,
            density: 70,
        }
    }
}

/// Random ignored tokens according to a `NoiseConfig`.
pub struct RandomNoise {
    pub cfg: NoiseConfig,
    pub rng: Rng,
}

impl RandomNoise {
    pub fn new(cfg: NoiseConfig, rng: Rng) -> RandomNoise {
        RandomNoise { cfg, rng }
    }
    fn line_terminator(&mut self) -> &'static str {
        let mut opts: Vec<&'static str> = vec![];
        if self.cfg.lf {
            opts.push("\n");
        }
        if self.cfg.crlf {
            opts.push("\r\n");
        }
        if self.cfg.lone_cr {
            opts.push("\r");
        }
        if opts.is_empty() {
            return "\n";
        }
        opts[self.rng.below(opts.len())]
    }
    fn comment(&mut self) -> String {
        let mut s = String::from("#");
        let n = self.rng.below(12);
        for _ in 0..n {
            let c = if self.cfg.non_ascii_comments && self.rng.chance(1, 3) {
                *self.rng.pick(&['é', 'ß', '中', '文', '😀', '\u{2028}', '\u{a0}', 'ʼ', '\u{feff}', '\u{7f}', '\u{85}'])
            } else {
                *self.rng.pick(&[
                    ' ', 'a', 'z', '"', '#', '{', '}', '\\', '$', '1', ',', '\t', ':', '.', '@', '!', '(', ')', '\'',
                ])
            };
            s.push(c);
        }
        s
    }
}

impl Noise for RandomNoise {
    fn gap(&mut self, g: &Gap) -> String {
        let mut s = String::new();
        let inner = g.prev.is_some() && g.next.is_some();
        if g.index == 0 && self.cfg.bom_at_start && self.rng.chance(1, 3) {
            s.push('\u{feff}');
        }
        if g.in_type && !self.cfg.inside_types {
            return s; // never required inside a type
        }
        let must = g.required || (self.cfg.always_separate && inner);
        if !must && !self.rng.chance(self.cfg.density, 100) {
            return s;
        }
        let pieces = 1 + self.rng.below(3);
        let mut produced = false;
        for _ in 0..pieces {
            let mut kinds: Vec<u8> = vec![];
            if self.cfg.spaces {
                kinds.extend([0, 0, 0]);
            }
            if self.cfg.tabs {
                kinds.push(1);
            }
            if self.cfg.lf || self.cfg.crlf || self.cfg.lone_cr {
                kinds.extend([2, 2]);
            }
            if self.cfg.commas {
                kinds.push(3);
            }
            if self.cfg.comments && (self.cfg.comment_after_on || !g.after_on) {
                kinds.push(4);
            }
            if self.cfg.bom_anywhere {
                kinds.push(5);
            }
            if kinds.is_empty() {
                break;
            }
            match *self.rng.pick(&kinds) {
                0 => {
                    for _ in 0..1 + self.rng.below(3) {
                        s.push(' ');
                    }
                }
                1 => s.push('\t'),
                2 => s.push_str(self.line_terminator()),
                3 => s.push(','),
                4 => {
                    let c = self.comment();
                    s.push_str(&c);
                    if g.next.is_some() || self.rng.bool() {
                        s.push_str(self.line_terminator());
                    }
                }
                _ => s.push('\u{feff}'),
            }
            produced = true;
        }
        if must && !produced {
            s.push(' ');
        }
        s
    }
}
