//! Hand-written lexer for the October-2021 lexical grammar (§2.1).

use crate::ast::{Pos, StringValue};

/// Options for points on which spec editions differ.
#[derive(Clone, Copy, Debug, Default)]
pub struct Options {
    /// October 2021: SourceCharacter is U+0009, U+000A, U+000D and
    /// U+0020..U+FFFF, so C0 control characters other than TAB/LF/CR are
    /// illegal everywhere (also inside strings and comments). Later editions
    /// admit every Unicode scalar value. `true` selects the later rule.
    /// (Code points above U+FFFF are always accepted: every implementation of
    /// the 2021 text reads them as two UTF-16 units inside the range.)
    pub allow_control_chars: bool,
}

/// Classification of a rejection; lets a caller treat whole classes
/// separately (edition-dependent, documented deviation, ...).
#[derive(Clone, Copy, Debug, PartialEq, Eq, Hash, PartialOrd, Ord)]
pub enum ErrKind {
    // ---- lexical
    /// a control character outside strings and comments (illegal in every edition)
    ControlChar,
    /// a control character inside a string, block string or comment (edition-dependent)
    ControlCharInStringOrComment,
    /// a character that starts no token (`?`, `%`, `é`, a single `.` ...)
    UnexpectedChar,
    LeadingZero,
    /// `-` not followed by a digit, `1.` without digits, `1e` without digits
    MalformedNumber,
    /// a number immediately followed by a digit, `.` or NameStart
    NumberFollowedBy,
    UnterminatedString,
    UnterminatedBlockString,
    BadEscape,
    /// `\uXXXX` naming a surrogate code point (documented deviation: rejected)
    SurrogateEscape,
    /// `\u{...}`: not in October 2021, legal in later editions
    BracedUnicodeEscape,
    // ---- syntactic
    UnexpectedToken,
    /// `on` as a fragment name, `true`/`false`/`null` as an enum value
    ReservedName,
    /// a variable in a const context (default values, type-system directives)
    VariableInConst,
    UnknownDirectiveLocation,
    /// empty document
    NoDefinition,
    /// a definition of the wrong class for `parse_executable` / `parse_type_system`
    WrongDocumentClass,
}

#[derive(Clone, Debug, PartialEq, Eq)]
pub struct SyntaxError {
    pub kind: ErrKind,
    pub pos: Pos,
    /// index (in Unicode scalar values) into the source text
    pub char_offset: usize,
    pub message: String,
}

impl std::fmt::Display for SyntaxError {
    fn fmt(&self, f: &mut std::fmt::Formatter) -> std::fmt::Result {
        write!(f, "{:?} at {}:{}: {}", self.kind, self.pos.line, self.pos.col, self.message)
    }
}

#[derive(Clone, Debug, PartialEq, Eq)]
pub enum Tok {
    /// one of `! $ & ( ) ... : = @ [ ] { | }`
    Punct(&'static str),
    Name(String),
    Int(String),
    Float(String),
    Str(StringValue),
    Eof,
}

#[derive(Clone, Debug)]
pub struct Token {
    pub tok: Tok,
    pub pos: Pos,
    /// char offsets [start, end) into the source
    pub start: usize,
    pub end: usize,
    /// ignored material directly before this token (between it and the
    /// previous token) contained: any character at all / a comment
    pub preceded_by_ignored: bool,
    pub preceded_by_comment: bool,
}

/// (line, column) of every character index of a text, plus one entry for the
/// end of input. LF, CRLF and lone CR end a line; columns count scalar values.
pub struct LineIndex {
    pub positions: Vec<(usize, usize)>,
}

impl LineIndex {
    pub fn new(text: &str) -> LineIndex {
        let chars: Vec<char> = text.chars().collect();
        LineIndex::from_chars(&chars)
    }
    pub fn from_chars(chars: &[char]) -> LineIndex {
        let mut positions = Vec::with_capacity(chars.len() + 1);
        let (mut line, mut col) = (1usize, 1usize);
        for (i, &c) in chars.iter().enumerate() {
            positions.push((line, col));
            match c {
                '\n' => {
                    line += 1;
                    col = 1;
                }
                '\r' => {
                    if chars.get(i + 1) == Some(&'\n') {
                        col += 1; // the LF of a CRLF ends the line
                    } else {
                        line += 1;
                        col = 1;
                    }
                }
                _ => col += 1,
            }
        }
        positions.push((line, col));
        LineIndex { positions }
    }
    /// Position of the character with this index (index == len: end of input).
    pub fn pos(&self, char_index: usize) -> (usize, usize) {
        self.positions[char_index.min(self.positions.len() - 1)]
    }
    /// Smallest character index that has this position.
    pub fn index_of(&self, line: usize, col: usize) -> Option<usize> {
        // positions are sorted lexicographically
        self.positions.binary_search(&(line, col)).ok()
    }
    pub fn len_chars(&self) -> usize {
        self.positions.len() - 1
    }
}

pub fn is_name_start(c: char) -> bool {
    c.is_ascii_alphabetic() || c == '_'
}
pub fn is_name_continue(c: char) -> bool {
    c.is_ascii_alphanumeric() || c == '_'
}
fn is_source_char(c: char, o: &Options) -> bool {
    c == '\t' || c == '\n' || c == '\r' || c >= '\u{20}' || o.allow_control_chars
}

struct Lexer<'a> {
    c: &'a [char],
    i: usize,
    idx: &'a LineIndex,
    o: Options,
}

impl<'a> Lexer<'a> {
    fn err<T>(&self, kind: ErrKind, at: usize, msg: impl Into<String>) -> Result<T, SyntaxError> {
        let (l, c) = self.idx.pos(at);
        Err(SyntaxError { kind, pos: Pos::new(l, c), char_offset: at, message: msg.into() })
    }
    fn peek(&self, k: usize) -> Option<char> {
        self.c.get(self.i + k).copied()
    }

    /// Skip ignored tokens. Returns (skipped anything, skipped a comment).
    fn skip_ignored(&mut self) -> Result<(bool, bool), SyntaxError> {
        let start = self.i;
        let mut comment = false;
        while let Some(ch) = self.peek(0) {
            match ch {
                '\u{feff}' | ' ' | '\t' | '\n' | '\r' | ',' => self.i += 1,
                '#' => {
                    comment = true;
                    self.i += 1;
                    while let Some(d) = self.peek(0) {
                        if d == '\n' || d == '\r' {
                            break;
                        }
                        if !is_source_char(d, &self.o) {
                            return self.err(
                                ErrKind::ControlCharInStringOrComment,
                                self.i,
                                format!("control character U+{:04X} in a comment", d as u32),
                            );
                        }
                        self.i += 1;
                    }
                }
                _ => break,
            }
        }
        Ok((self.i > start, comment))
    }

    fn next_token(&mut self) -> Result<Token, SyntaxError> {
        let (ign, com) = self.skip_ignored()?;
        let start = self.i;
        let (l, c) = self.idx.pos(start);
        let pos = Pos::new(l, c);
        let mk = |tok: Tok, end: usize| Token {
            tok,
            pos,
            start,
            end,
            preceded_by_ignored: ign,
            preceded_by_comment: com,
        };
        let Some(ch) = self.peek(0) else {
            return Ok(mk(Tok::Eof, start));
        };
        let p: Option<&'static str> = match ch {
            '!' => Some("!"),
            '$' => Some("$"),
            '&' => Some("&"),
            '(' => Some("("),
            ')' => Some(")"),
            ':' => Some(":"),
            '=' => Some("="),
            '@' => Some("@"),
            '[' => Some("["),
            ']' => Some("]"),
            '{' => Some("{"),
            '|' => Some("|"),
            '}' => Some("}"),
            _ => None,
        };
        if let Some(p) = p {
            self.i += 1;
            return Ok(mk(Tok::Punct(p), self.i));
        }
        if ch == '.' {
            if self.peek(1) == Some('.') && self.peek(2) == Some('.') {
                self.i += 3;
                return Ok(mk(Tok::Punct("..."), self.i));
            }
            return self.err(ErrKind::UnexpectedChar, start, "'.' is not a token (expected '...')");
        }
        if is_name_start(ch) {
            while self.peek(0).is_some_and(is_name_continue) {
                self.i += 1;
            }
            let s: String = self.c[start..self.i].iter().collect();
            return Ok(mk(Tok::Name(s), self.i));
        }
        if ch == '-' || ch.is_ascii_digit() {
            let t = self.number()?;
            return Ok(mk(t, self.i));
        }
        if ch == '"' {
            let t = self.string()?;
            return Ok(mk(t, self.i));
        }
        if !is_source_char(ch, &Options::default()) {
            return self.err(
                ErrKind::ControlChar,
                start,
                format!("control character U+{:04X} outside a string or comment", ch as u32),
            );
        }
        self.err(ErrKind::UnexpectedChar, start, format!("character {ch:?} starts no token"))
    }

    fn number(&mut self) -> Result<Tok, SyntaxError> {
        let start = self.i;
        if self.peek(0) == Some('-') {
            self.i += 1;
        }
        match self.peek(0) {
            Some('0') => {
                self.i += 1;
                if self.peek(0).is_some_and(|d| d.is_ascii_digit()) {
                    return self.err(ErrKind::LeadingZero, self.i, "a number may not have leading zeros");
                }
            }
            Some(d) if d.is_ascii_digit() => {
                while self.peek(0).is_some_and(|d| d.is_ascii_digit()) {
                    self.i += 1;
                }
            }
            _ => return self.err(ErrKind::MalformedNumber, self.i, "'-' must be followed by a digit"),
        }
        let mut float = false;
        if self.peek(0) == Some('.') {
            // IntValue may not be followed by '.', so this must be a fraction
            if !self.peek(1).is_some_and(|d| d.is_ascii_digit()) {
                return self.err(ErrKind::MalformedNumber, self.i + 1, "'.' in a number must be followed by a digit");
            }
            float = true;
            self.i += 1;
            while self.peek(0).is_some_and(|d| d.is_ascii_digit()) {
                self.i += 1;
            }
        }
        if matches!(self.peek(0), Some('e') | Some('E')) {
            // 'e' is a NameStart: either an exponent or an error
            let mut j = 1;
            if matches!(self.peek(1), Some('+') | Some('-')) {
                j = 2;
            }
            if !self.peek(j).is_some_and(|d| d.is_ascii_digit()) {
                return self.err(ErrKind::MalformedNumber, self.i + j, "exponent needs at least one digit");
            }
            float = true;
            self.i += j;
            while self.peek(0).is_some_and(|d| d.is_ascii_digit()) {
                self.i += 1;
            }
        }
        if let Some(n) = self.peek(0) {
            if n.is_ascii_digit() || n == '.' || is_name_start(n) {
                return self.err(
                    ErrKind::NumberFollowedBy,
                    self.i,
                    format!("a number may not be immediately followed by {n:?}"),
                );
            }
        }
        let s: String = self.c[start..self.i].iter().collect();
        Ok(if float { Tok::Float(s) } else { Tok::Int(s) })
    }

    fn string(&mut self) -> Result<Tok, SyntaxError> {
        let start = self.i;
        if self.peek(1) == Some('"') && self.peek(2) == Some('"') {
            return self.block_string();
        }
        self.i += 1;
        let mut value = String::new();
        loop {
            let Some(ch) = self.peek(0) else {
                return self.err(ErrKind::UnterminatedString, self.i, "unterminated string");
            };
            match ch {
                '"' => {
                    let raw: String = self.c[start + 1..self.i].iter().collect();
                    self.i += 1;
                    return Ok(Tok::Str(StringValue { value, block: false, raw: Some(raw) }));
                }
                '\n' | '\r' => {
                    return self.err(ErrKind::UnterminatedString, self.i, "line terminator inside a string");
                }
                '\\' => {
                    let e = self.peek(1);
                    let simple = match e {
                        Some('"') => Some('"'),
                        Some('\\') => Some('\\'),
                        Some('/') => Some('/'),
                        Some('b') => Some('\u{8}'),
                        Some('f') => Some('\u{c}'),
                        Some('n') => Some('\n'),
                        Some('r') => Some('\r'),
                        Some('t') => Some('\t'),
                        _ => None,
                    };
                    if let Some(s) = simple {
                        value.push(s);
                        self.i += 2;
                        continue;
                    }
                    if e == Some('u') {
                        if self.peek(2) == Some('{') {
                            return self.err(
                                ErrKind::BracedUnicodeEscape,
                                self.i,
                                "\\u{...} is not an October-2021 escape",
                            );
                        }
                        let mut cp = 0u32;
                        for k in 0..4 {
                            match self.peek(2 + k).and_then(|h| h.to_digit(16)) {
                                Some(d) => cp = cp * 16 + d,
                                None => {
                                    return self.err(ErrKind::BadEscape, self.i, "\\u needs four hex digits");
                                }
                            }
                        }
                        match char::from_u32(cp) {
                            Some(c) => value.push(c),
                            None => {
                                return self.err(
                                    ErrKind::SurrogateEscape,
                                    self.i,
                                    format!("\\u{cp:04X} is a surrogate, not a Unicode scalar value"),
                                );
                            }
                        }
                        self.i += 6;
                        continue;
                    }
                    if e.is_none() {
                        return self.err(ErrKind::UnterminatedString, self.i + 1, "unterminated string");
                    }
                    return self.err(ErrKind::BadEscape, self.i, format!("unknown escape \\{}", e.unwrap()));
                }
                c if !is_source_char(c, &self.o) => {
                    return self.err(
                        ErrKind::ControlCharInStringOrComment,
                        self.i,
                        format!("control character U+{:04X} in a string", c as u32),
                    );
                }
                c => {
                    value.push(c);
                    self.i += 1;
                }
            }
        }
    }

    fn block_string(&mut self) -> Result<Tok, SyntaxError> {
        let start = self.i;
        self.i += 3;
        let mut raw_value = String::new(); // with \""" already replaced
        loop {
            let Some(ch) = self.peek(0) else {
                return self.err(ErrKind::UnterminatedBlockString, self.i, "unterminated block string");
            };
            if ch == '"' && self.peek(1) == Some('"') && self.peek(2) == Some('"') {
                let raw: String = self.c[start + 3..self.i].iter().collect();
                self.i += 3;
                return Ok(Tok::Str(StringValue {
                    value: block_string_value(&raw_value),
                    block: true,
                    raw: Some(raw),
                }));
            }
            if ch == '\\' && self.peek(1) == Some('"') && self.peek(2) == Some('"') && self.peek(3) == Some('"') {
                raw_value.push_str("\"\"\"");
                self.i += 4;
                continue;
            }
            if !is_source_char(ch, &self.o) {
                return self.err(
                    ErrKind::ControlCharInStringOrComment,
                    self.i,
                    format!("control character U+{:04X} in a block string", ch as u32),
                );
            }
            raw_value.push(ch);
            self.i += 1;
        }
    }
}

/// `BlockStringValue(rawValue)` of §2.9.4, step by step.
pub fn block_string_value(raw: &str) -> String {
    // 1. split by LineTerminator (CRLF is one terminator)
    let chars: Vec<char> = raw.chars().collect();
    let mut lines: Vec<Vec<char>> = vec![vec![]];
    let mut i = 0;
    while i < chars.len() {
        match chars[i] {
            '\r' => {
                if chars.get(i + 1) == Some(&'\n') {
                    i += 1;
                }
                lines.push(vec![]);
            }
            '\n' => lines.push(vec![]),
            c => lines.last_mut().unwrap().push(c),
        }
        i += 1;
    }
    let is_ws = |c: &char| *c == ' ' || *c == '\t';
    // 2-3. common indent over every line but the first that has a non-whitespace character
    let mut common: Option<usize> = None;
    for line in lines.iter().skip(1) {
        let indent = line.iter().take_while(|c| is_ws(c)).count();
        if indent < line.len() && common.is_none_or(|c| indent < c) {
            common = Some(indent);
        }
    }
    // 4. remove it from every line but the first
    if let Some(ci) = common {
        for line in lines.iter_mut().skip(1) {
            let n = ci.min(line.len());
            line.drain(..n);
        }
    }
    // 5-6. drop leading and trailing lines that contain only whitespace
    let mut lo = 0;
    while lo < lines.len() && lines[lo].iter().all(is_ws) {
        lo += 1;
    }
    let mut hi = lines.len();
    while hi > lo && lines[hi - 1].iter().all(is_ws) {
        hi -= 1;
    }
    // 7-9. join with LF
    let mut out = String::new();
    for (k, line) in lines[lo..hi].iter().enumerate() {
        if k > 0 {
            out.push('\n');
        }
        out.extend(line.iter());
    }
    out
}

/// Tokenise a whole document. The last token is `Tok::Eof`.
pub fn lex(text: &str, o: &Options) -> Result<Vec<Token>, SyntaxError> {
    let chars: Vec<char> = text.chars().collect();
    let idx = LineIndex::from_chars(&chars);
    let mut lx = Lexer { c: &chars, i: 0, idx: &idx, o: *o };
    let mut out = vec![];
    loop {
        let t = lx.next_token()?;
        let eof = t.tok == Tok::Eof;
        out.push(t);
        if eof {
            return Ok(out);
        }
    }
}
