//! vh-r2 (stub)
