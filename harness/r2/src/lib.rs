//! vh-r2 — R2, an independent GraphQL parser (reference model for C13, C14, C17).
//!
//! Hand-written lexer + recursive descent for the October-2021 specification:
//! executable documents and type-system documents (schema / scalar / type /
//! interface / union / enum / input / directive definitions, all `extend`
//! forms, descriptions, `implements A & B`, `repeatable`, directive
//! locations). Shares nothing with async-graphql's pest grammar.
//!
//! # API in one screen
//!
//! ```ignore
//! use vh_r2::*;
//! // parsing -------------------------------------------------------------
//! let p: Parsed = parse_executable(text, &Options::default())?;   // operations + fragments only
//! let p: Parsed = parse_type_system(sdl, &Options::default())?;   // type-system definitions + extensions only
//! let p: Parsed = parse_document(text, &Options::default())?;     // any mix
//! p.doc            // ast::Document { definitions: Vec<Definition> }
//! p.features       // constructs noticed while parsing (see parser::FEATURE_TAGS)
//! // Err(SyntaxError { kind: ErrKind, pos, char_offset, message })
//!
//! // document-level rules that async-graphql's parser also enforces -------
//! validate_executable(&p.doc, Some(64))?;   // unique operation/fragment names, lone anonymous op, >=1 op, nesting limit
//! validate_type_system(&p.doc)?;            // query root present, root operation types unique
//!
//! // tree (ast.rs) ---------------------------------------------------------
//! // every node has `pos: Pos {line, col}` = start of its first token; `==` on
//! // nodes IGNORES positions; use `pos.lc()` / `all_positions(&doc)` to compare them.
//! for t in p.doc.types() {                  // TypeDefinition (also extensions: t.extend)
//!     t.name.value; t.description.as_ref().map(|d| d.text());
//!     find_directive(&t.directives, "deprecated").and_then(|d| d.argument("reason")).and_then(|v| v.as_str());
//!     match &t.kind { TypeDefKind::Object { implements, fields } => { /* FieldDefinition: name, arguments (InputValueDefinition:
//!                       name, ty, default_value: Option<Value>, directives), ty: Type, directives, description */ } _ => {} }
//! }
//! p.doc.directive_definitions(); p.doc.schema_definitions(); p.doc.operations(); p.doc.fragments();
//! // values: ValueKind::{Variable, Int(lexeme), Float(lexeme), String(StringValue{value (decoded), block, raw}),
//! //                     Boolean, Null, Enum, List, Object(Vec<(Name, Value)>)}; Type { base: Named|List, non_null } + Display
//!
//! // printing ----------------------------------------------------------------
//! let text = print_compact(&doc);
//! let pr: Printed = print(&doc, &PrintOptions::default(), &mut RandomNoise::new(NoiseConfig::hostile(), rng));
//! pr.text; pr.tokens /* Vec<PToken{text, kind, ..}> */; pr.table /* Vec<TokenEntry{line, col, char_start, char_end}> */;
//! pr.gaps /* ignored text around the tokens */; pr.doc /* the tree with exact positions */
//! render(&tokens, &mut noise)    // lay out any token sequence (e.g. a mutated one) -> Rendered { text, gaps, table }
//! LineIndex::new(text)           // (line, col) <-> character index under the C14 rule
//!
//! // generation ----------------------------------------------------------------
//! let doc = gen_executable(&mut rng, &GenConfig::default());
//! let doc = gen_type_system(&mut rng, &GenConfig::default());
//! self_check(&doc, DocClass::Executable, &pr)?;   // R2(print(ast)) == ast, positions == token table
//! ```
//!
//! # Line/column rule
//! LF, CRLF and a lone CR each end a line (also inside block strings and
//! comments); columns count Unicode scalar values; both are 1-based; U+FEFF
//! counts as one column.
//!
//! # Deliberate choices
//! * `\uXXXX` must denote a Unicode scalar value; surrogates are rejected
//!   (`ErrKind::SurrogateEscape`) — the documented deviation of async-graphql.
//!   `\u{...}` is rejected with its own kind (`BracedUnicodeEscape`): later
//!   editions allow it.
//! * `Options::allow_control_chars` selects between the October-2021
//!   SourceCharacter set and the later "any scalar value" rule.
//! * Numbers keep their lexeme; R2 never rounds.
//! * `BlockStringValue()` follows the specification step by step
//!   (`lexer::block_string_value`); the generator builds block strings from
//!   the value outwards and does not use that function.

pub mod ast;
pub mod generate;
pub mod lexer;
pub mod parser;
pub mod print;
pub mod validate;

pub use ast::*;
pub use generate::{Gen, GenConfig, gen_executable, gen_type_system};
pub use lexer::{ErrKind, LineIndex, Options, SyntaxError, Tok, Token, block_string_value, lex};
pub use parser::{DocClass, FEATURE_TAGS, Parsed, parse};
pub use print::{
    Gap, Noise, NoiseConfig, PKind, PToken, PrintOptions, Printed, RandomNoise, Rendered, TokenEntry, encode_block,
    encode_quoted, needs_separator, print, print_compact, render, tokens_of,
};
pub use validate::{
    RuleViolation, max_selection_depth, selection_depth, validate_executable, validate_type_system,
};

/// Parse any `Document` (executable and type-system definitions may be mixed).
pub fn parse_document(text: &str, o: &Options) -> Result<Parsed, SyntaxError> {
    parse(text, DocClass::Any, o)
}
/// Parse an `ExecutableDocument` (operations and fragments only).
pub fn parse_executable(text: &str, o: &Options) -> Result<Parsed, SyntaxError> {
    parse(text, DocClass::Executable, o)
}
/// Parse a type-system document (definitions and extensions only).
pub fn parse_type_system(text: &str, o: &Options) -> Result<Parsed, SyntaxError> {
    parse(text, DocClass::TypeSystem, o)
}

/// Self-validation of R2 on a generated document: parsing the printed text
/// gives back the generator's tree, and every node position equals the
/// printer's token table.
pub fn self_check(doc: &Document, class: DocClass, printed: &Printed) -> Result<Parsed, String> {
    let parsed = parse(&printed.text, class, &Options::default())
        .map_err(|e| format!("R2 rejects its own print: {e}"))?;
    if parsed.doc != *doc {
        let a: Vec<char> = format!("{doc:?}").chars().collect();
        let b: Vec<char> = format!("{:?}", parsed.doc).chars().collect();
        // positions differ textually (0:0 in the generated tree): compare with them blanked
        let strip = |v: &[char]| -> String {
            let s: String = v.iter().collect();
            let mut out = String::new();
            let mut rest = s.as_str();
            while let Some(i) = rest.find("pos: ") {
                out.push_str(&rest[..i + 5]);
                rest = &rest[i + 5..];
                let j = rest.find([',', ' ', '}']).unwrap_or(rest.len());
                rest = &rest[j..];
            }
            out.push_str(rest);
            out
        };
        let (sa, sb) = (strip(&a), strip(&b));
        let (ca, cb): (Vec<char>, Vec<char>) = (sa.chars().collect(), sb.chars().collect());
        let k = ca.iter().zip(&cb).position(|(x, y)| x != y).unwrap_or(ca.len().min(cb.len()));
        let lo = k.saturating_sub(120);
        let xa: String = ca[lo..(k + 160).min(ca.len())].iter().collect();
        let xb: String = cb[lo..(k + 160).min(cb.len())].iter().collect();
        return Err(format!("R2(print(ast)) != ast\n generated: …{xa}…\n reparsed:  …{xb}…"));
    }
    let want = all_positions(&printed.doc);
    let got = all_positions(&parsed.doc);
    if want != got {
        let k = want.iter().zip(&got).position(|(a, b)| a != b);
        return Err(format!(
            "R2 positions differ from the token table at position #{k:?}: table {:?} parsed {:?}",
            k.map(|k| want[k]),
            k.map(|k| got[k])
        ));
    }
    Ok(parsed)
}
