//! R2 syntax tree. Every node carries the (line, column) of its first token.
//!
//! Equality (`==`) on every node type is *structural and ignores positions*
//! (see [`Pos`]); positions are compared explicitly with [`Pos::lc`].

use std::fmt;

/// 1-based line and column of the first character of a token. LF, CRLF and a
/// lone CR each end a line; columns count Unicode scalar values.
///
/// `Pos == Pos` is always true so that derived `PartialEq` on the tree is
/// position-insensitive. Compare `a.lc() == b.lc()` to compare positions.
#[derive(Clone, Copy, Default, Hash)]
pub struct Pos {
    pub line: usize,
    pub col: usize,
}

impl Pos {
    pub fn new(line: usize, col: usize) -> Pos {
        Pos { line, col }
    }
    /// (line, column) as a comparable tuple.
    pub fn lc(&self) -> (usize, usize) {
        (self.line, self.col)
    }
}
impl PartialEq for Pos {
    fn eq(&self, _: &Pos) -> bool {
        true
    }
}
impl Eq for Pos {}
impl fmt::Debug for Pos {
    fn fmt(&self, f: &mut fmt::Formatter) -> fmt::Result {
        write!(f, "{}:{}", self.line, self.col)
    }
}
impl fmt::Display for Pos {
    fn fmt(&self, f: &mut fmt::Formatter) -> fmt::Result {
        write!(f, "{}:{}", self.line, self.col)
    }
}

#[derive(Clone, Debug, PartialEq, Eq)]
pub struct Name {
    pub pos: Pos,
    pub value: String,
}
impl Name {
    pub fn new(s: impl Into<String>) -> Name {
        Name { pos: Pos::default(), value: s.into() }
    }
    pub fn as_str(&self) -> &str {
        &self.value
    }
}

/// A string literal. `value` is the decoded value (escapes resolved,
/// `BlockStringValue()` applied). `raw` is the source text between the
/// delimiters; the parser always fills it, a generator may leave it `None`
/// and let the printer choose a spelling. Equality compares `value` and
/// `block` only.
#[derive(Clone, Debug)]
pub struct StringValue {
    pub value: String,
    pub block: bool,
    pub raw: Option<String>,
}
impl PartialEq for StringValue {
    fn eq(&self, o: &StringValue) -> bool {
        self.value == o.value && self.block == o.block
    }
}
impl Eq for StringValue {}
impl StringValue {
    pub fn quoted(value: impl Into<String>) -> StringValue {
        StringValue { value: value.into(), block: false, raw: None }
    }
}

#[derive(Clone, Debug, PartialEq, Eq)]
pub struct Value {
    pub pos: Pos,
    pub kind: ValueKind,
}
impl Value {
    pub fn new(kind: ValueKind) -> Value {
        Value { pos: Pos::default(), kind }
    }
}

/// Numbers keep their exact lexeme (`-0`, `1.50e+3`): nothing is lost or
/// rounded by R2.
#[derive(Clone, Debug, PartialEq, Eq)]
pub enum ValueKind {
    /// `$name` (name without the `$`)
    Variable(String),
    Int(String),
    Float(String),
    String(StringValue),
    Boolean(bool),
    Null,
    Enum(String),
    List(Vec<Value>),
    /// fields in source order; duplicates are kept
    Object(Vec<(Name, Value)>),
}

#[derive(Clone, Debug, PartialEq, Eq)]
pub struct Type {
    pub pos: Pos,
    pub base: TypeBase,
    pub non_null: bool,
}
#[derive(Clone, Debug, PartialEq, Eq)]
pub enum TypeBase {
    Named(String),
    List(Box<Type>),
}
impl Type {
    pub fn named(n: impl Into<String>, non_null: bool) -> Type {
        Type { pos: Pos::default(), base: TypeBase::Named(n.into()), non_null }
    }
    pub fn list(inner: Type, non_null: bool) -> Type {
        Type { pos: Pos::default(), base: TypeBase::List(Box::new(inner)), non_null }
    }
}
impl fmt::Display for Type {
    fn fmt(&self, f: &mut fmt::Formatter) -> fmt::Result {
        match &self.base {
            TypeBase::Named(n) => write!(f, "{n}")?,
            TypeBase::List(t) => write!(f, "[{t}]")?,
        }
        if self.non_null {
            write!(f, "!")?;
        }
        Ok(())
    }
}

#[derive(Clone, Debug, PartialEq, Eq)]
pub struct Argument {
    pub name: Name,
    pub value: Value,
}

/// `pos` is the position of `@`.
#[derive(Clone, Debug, PartialEq, Eq)]
pub struct Directive {
    pub pos: Pos,
    pub name: Name,
    pub arguments: Vec<Argument>,
}

#[derive(Clone, Debug, PartialEq, Eq)]
pub struct Document {
    pub definitions: Vec<Definition>,
}

#[derive(Clone, Debug, PartialEq, Eq)]
pub enum Definition {
    Operation(OperationDefinition),
    Fragment(FragmentDefinition),
    TypeSystem(TypeSystemDefinition),
}

#[derive(Clone, Copy, Debug, PartialEq, Eq, PartialOrd, Ord, Hash)]
pub enum OperationKind {
    Query,
    Mutation,
    Subscription,
}
impl OperationKind {
    pub fn keyword(&self) -> &'static str {
        match self {
            OperationKind::Query => "query",
            OperationKind::Mutation => "mutation",
            OperationKind::Subscription => "subscription",
        }
    }
}

/// `pos`: the operation keyword, or `{` of the shorthand form.
#[derive(Clone, Debug, PartialEq, Eq)]
pub struct OperationDefinition {
    pub pos: Pos,
    pub kind: OperationKind,
    /// query shorthand `{ ... }` (no keyword, name, variables, directives)
    pub shorthand: bool,
    pub name: Option<Name>,
    pub variables: Vec<VariableDefinition>,
    pub directives: Vec<Directive>,
    pub selection_set: SelectionSet,
}

/// `pos`: the `$`; `name.pos`: the name token after it.
#[derive(Clone, Debug, PartialEq, Eq)]
pub struct VariableDefinition {
    pub pos: Pos,
    pub name: Name,
    pub ty: Type,
    pub default_value: Option<Value>,
    pub directives: Vec<Directive>,
}

/// `pos`: the `{`.
#[derive(Clone, Debug, PartialEq, Eq)]
pub struct SelectionSet {
    pub pos: Pos,
    pub items: Vec<Selection>,
}

#[derive(Clone, Debug, PartialEq, Eq)]
pub enum Selection {
    Field(Field),
    FragmentSpread(FragmentSpread),
    InlineFragment(InlineFragment),
}

/// `pos`: the alias if present, else the name.
#[derive(Clone, Debug, PartialEq, Eq)]
pub struct Field {
    pub pos: Pos,
    pub alias: Option<Name>,
    pub name: Name,
    pub arguments: Vec<Argument>,
    pub directives: Vec<Directive>,
    pub selection_set: Option<SelectionSet>,
}

/// `pos`: the `...`.
#[derive(Clone, Debug, PartialEq, Eq)]
pub struct FragmentSpread {
    pub pos: Pos,
    pub name: Name,
    pub directives: Vec<Directive>,
}

/// `pos`: the `...`.
#[derive(Clone, Debug, PartialEq, Eq)]
pub struct InlineFragment {
    pub pos: Pos,
    pub type_condition: Option<TypeCondition>,
    pub directives: Vec<Directive>,
    pub selection_set: SelectionSet,
}

/// `pos`: the `on` keyword.
#[derive(Clone, Debug, PartialEq, Eq)]
pub struct TypeCondition {
    pub pos: Pos,
    pub name: Name,
}

/// `pos`: the `fragment` keyword.
#[derive(Clone, Debug, PartialEq, Eq)]
pub struct FragmentDefinition {
    pub pos: Pos,
    pub name: Name,
    pub type_condition: TypeCondition,
    pub directives: Vec<Directive>,
    pub selection_set: SelectionSet,
}

// ---------------------------------------------------------------- type system

#[derive(Clone, Debug, PartialEq, Eq)]
pub enum TypeSystemDefinition {
    Schema(SchemaDefinition),
    Type(TypeDefinition),
    Directive(DirectiveDefinition),
}

#[derive(Clone, Debug, PartialEq, Eq)]
pub struct Description {
    pub pos: Pos,
    pub value: StringValue,
}
impl Description {
    pub fn text(&self) -> &str {
        &self.value.value
    }
}

/// `pos`: description if present, else `extend` / `schema`.
#[derive(Clone, Debug, PartialEq, Eq)]
pub struct SchemaDefinition {
    pub pos: Pos,
    pub extend: bool,
    pub description: Option<Description>,
    pub directives: Vec<Directive>,
    pub root_operations: Vec<RootOperation>,
}

/// `pos`: the operation keyword.
#[derive(Clone, Debug, PartialEq, Eq)]
pub struct RootOperation {
    pub pos: Pos,
    pub kind: OperationKind,
    pub type_name: Name,
}

/// `pos`: description if present, else `extend` or the kind keyword.
#[derive(Clone, Debug, PartialEq, Eq)]
pub struct TypeDefinition {
    pub pos: Pos,
    pub extend: bool,
    pub description: Option<Description>,
    pub name: Name,
    pub directives: Vec<Directive>,
    pub kind: TypeDefKind,
}

#[derive(Clone, Debug, PartialEq, Eq)]
pub enum TypeDefKind {
    Scalar,
    Object { implements: Vec<Name>, fields: Vec<FieldDefinition> },
    Interface { implements: Vec<Name>, fields: Vec<FieldDefinition> },
    Union { members: Vec<Name> },
    Enum { values: Vec<EnumValueDefinition> },
    InputObject { fields: Vec<InputValueDefinition> },
}
impl TypeDefKind {
    pub fn keyword(&self) -> &'static str {
        match self {
            TypeDefKind::Scalar => "scalar",
            TypeDefKind::Object { .. } => "type",
            TypeDefKind::Interface { .. } => "interface",
            TypeDefKind::Union { .. } => "union",
            TypeDefKind::Enum { .. } => "enum",
            TypeDefKind::InputObject { .. } => "input",
        }
    }
}

/// `pos`: description if present, else the name.
#[derive(Clone, Debug, PartialEq, Eq)]
pub struct FieldDefinition {
    pub pos: Pos,
    pub description: Option<Description>,
    pub name: Name,
    pub arguments: Vec<InputValueDefinition>,
    pub ty: Type,
    pub directives: Vec<Directive>,
}

/// `pos`: description if present, else the name.
#[derive(Clone, Debug, PartialEq, Eq)]
pub struct InputValueDefinition {
    pub pos: Pos,
    pub description: Option<Description>,
    pub name: Name,
    pub ty: Type,
    pub default_value: Option<Value>,
    pub directives: Vec<Directive>,
}

/// `pos`: description if present, else the value name.
#[derive(Clone, Debug, PartialEq, Eq)]
pub struct EnumValueDefinition {
    pub pos: Pos,
    pub description: Option<Description>,
    pub value: Name,
    pub directives: Vec<Directive>,
}

/// `pos`: description if present, else `directive`. `locations` hold the
/// location names (`FIELD`, `ENUM_VALUE`, ...), validated by the parser.
#[derive(Clone, Debug, PartialEq, Eq)]
pub struct DirectiveDefinition {
    pub pos: Pos,
    pub description: Option<Description>,
    pub name: Name,
    pub arguments: Vec<InputValueDefinition>,
    pub repeatable: bool,
    pub locations: Vec<Name>,
}

pub const DIRECTIVE_LOCATIONS: [&str; 19] = [
    "QUERY",
    "MUTATION",
    "SUBSCRIPTION",
    "FIELD",
    "FRAGMENT_DEFINITION",
    "FRAGMENT_SPREAD",
    "INLINE_FRAGMENT",
    "VARIABLE_DEFINITION",
    "SCHEMA",
    "SCALAR",
    "OBJECT",
    "FIELD_DEFINITION",
    "ARGUMENT_DEFINITION",
    "INTERFACE",
    "UNION",
    "ENUM",
    "ENUM_VALUE",
    "INPUT_OBJECT",
    "INPUT_FIELD_DEFINITION",
];

// ------------------------------------------------------------------ accessors

impl Document {
    pub fn operations(&self) -> impl Iterator<Item = &OperationDefinition> {
        self.definitions.iter().filter_map(|d| match d {
            Definition::Operation(o) => Some(o),
            _ => None,
        })
    }
    pub fn fragments(&self) -> impl Iterator<Item = &FragmentDefinition> {
        self.definitions.iter().filter_map(|d| match d {
            Definition::Fragment(o) => Some(o),
            _ => None,
        })
    }
    pub fn type_system(&self) -> impl Iterator<Item = &TypeSystemDefinition> {
        self.definitions.iter().filter_map(|d| match d {
            Definition::TypeSystem(o) => Some(o),
            _ => None,
        })
    }
    /// Type definitions and extensions.
    pub fn types(&self) -> impl Iterator<Item = &TypeDefinition> {
        self.type_system().filter_map(|d| match d {
            TypeSystemDefinition::Type(t) => Some(t),
            _ => None,
        })
    }
    pub fn directive_definitions(&self) -> impl Iterator<Item = &DirectiveDefinition> {
        self.type_system().filter_map(|d| match d {
            TypeSystemDefinition::Directive(t) => Some(t),
            _ => None,
        })
    }
    pub fn schema_definitions(&self) -> impl Iterator<Item = &SchemaDefinition> {
        self.type_system().filter_map(|d| match d {
            TypeSystemDefinition::Schema(t) => Some(t),
            _ => None,
        })
    }
    /// Find a (non-extension) type definition by name.
    pub fn type_named(&self, name: &str) -> Option<&TypeDefinition> {
        self.types().find(|t| !t.extend && t.name.value == name)
    }
}

/// Find a directive by name (e.g. `deprecated`).
pub fn find_directive<'a>(ds: &'a [Directive], name: &str) -> Option<&'a Directive> {
    ds.iter().find(|d| d.name.value == name)
}
impl Directive {
    pub fn argument(&self, name: &str) -> Option<&Value> {
        self.arguments.iter().find(|a| a.name.value == name).map(|a| &a.value)
    }
}
impl Value {
    /// Decoded string if this is a string value.
    pub fn as_str(&self) -> Option<&str> {
        match &self.kind {
            ValueKind::String(s) => Some(&s.value),
            _ => None,
        }
    }
}

// ------------------------------------------------------------ position walker

type PosFn<'a> = &'a mut dyn FnMut(&mut Pos, &'static str);

/// Visit every `Pos` of the tree in a fixed (pre-)order, mutably, with a label
/// naming what the position belongs to (`"field"`, `"directive.name"`, ...).
pub fn for_each_pos_mut(doc: &mut Document, f: PosFn) {
    for d in &mut doc.definitions {
        match d {
            Definition::Operation(o) => {
                f(&mut o.pos, "operation");
                if let Some(n) = &mut o.name {
                    f(&mut n.pos, "operation.name");
                }
                for v in &mut o.variables {
                    f(&mut v.pos, "variable_definition");
                    f(&mut v.name.pos, "variable_definition.name");
                    walk_type(&mut v.ty, f, true);
                    if let Some(d) = &mut v.default_value {
                        walk_value(d, f, "default_value");
                    }
                    walk_directives(&mut v.directives, f);
                }
                walk_directives(&mut o.directives, f);
                walk_selset(&mut o.selection_set, f);
            }
            Definition::Fragment(fr) => {
                f(&mut fr.pos, "fragment_definition");
                f(&mut fr.name.pos, "fragment_definition.name");
                f(&mut fr.type_condition.pos, "type_condition");
                f(&mut fr.type_condition.name.pos, "type_condition.name");
                walk_directives(&mut fr.directives, f);
                walk_selset(&mut fr.selection_set, f);
            }
            Definition::TypeSystem(t) => walk_ts(t, f),
        }
    }
}

fn walk_type(t: &mut Type, f: PosFn, outer: bool) {
    f(&mut t.pos, if outer { "type" } else { "type.inner" });
    if let TypeBase::List(inner) = &mut t.base {
        walk_type(inner, f, false);
    }
}
fn walk_value(v: &mut Value, f: PosFn, label: &'static str) {
    f(&mut v.pos, label);
    match &mut v.kind {
        ValueKind::List(xs) => {
            for x in xs {
                walk_value(x, f, "value.nested");
            }
        }
        ValueKind::Object(fs) => {
            for (n, x) in fs {
                f(&mut n.pos, "object_field.name");
                walk_value(x, f, "value.nested");
            }
        }
        _ => {}
    }
}
fn walk_directives(ds: &mut [Directive], f: PosFn) {
    for d in ds {
        f(&mut d.pos, "directive");
        f(&mut d.name.pos, "directive.name");
        for a in &mut d.arguments {
            f(&mut a.name.pos, "argument.name");
            walk_value(&mut a.value, f, "argument.value");
        }
    }
}
fn walk_selset(s: &mut SelectionSet, f: PosFn) {
    f(&mut s.pos, "selection_set");
    for it in &mut s.items {
        match it {
            Selection::Field(fl) => {
                f(&mut fl.pos, "field");
                if let Some(a) = &mut fl.alias {
                    f(&mut a.pos, "field.alias");
                }
                f(&mut fl.name.pos, "field.name");
                for a in &mut fl.arguments {
                    f(&mut a.name.pos, "argument.name");
                    walk_value(&mut a.value, f, "argument.value");
                }
                walk_directives(&mut fl.directives, f);
                if let Some(s) = &mut fl.selection_set {
                    walk_selset(s, f);
                }
            }
            Selection::FragmentSpread(sp) => {
                f(&mut sp.pos, "fragment_spread");
                f(&mut sp.name.pos, "fragment_spread.name");
                walk_directives(&mut sp.directives, f);
            }
            Selection::InlineFragment(inf) => {
                f(&mut inf.pos, "inline_fragment");
                if let Some(tc) = &mut inf.type_condition {
                    f(&mut tc.pos, "type_condition");
                    f(&mut tc.name.pos, "type_condition.name");
                }
                walk_directives(&mut inf.directives, f);
                walk_selset(&mut inf.selection_set, f);
            }
        }
    }
}
fn walk_desc(d: &mut Option<Description>, f: PosFn) {
    if let Some(d) = d {
        f(&mut d.pos, "description");
    }
}
fn walk_ivd(v: &mut InputValueDefinition, f: PosFn) {
    f(&mut v.pos, "input_value_definition");
    walk_desc(&mut v.description, f);
    f(&mut v.name.pos, "input_value_definition.name");
    walk_type(&mut v.ty, f, true);
    if let Some(d) = &mut v.default_value {
        walk_value(d, f, "default_value");
    }
    walk_directives(&mut v.directives, f);
}
fn walk_fields(fs: &mut [FieldDefinition], f: PosFn) {
    for fd in fs {
        f(&mut fd.pos, "field_definition");
        walk_desc(&mut fd.description, f);
        f(&mut fd.name.pos, "field_definition.name");
        for a in &mut fd.arguments {
            walk_ivd(a, f);
        }
        walk_type(&mut fd.ty, f, true);
        walk_directives(&mut fd.directives, f);
    }
}
fn walk_ts(t: &mut TypeSystemDefinition, f: PosFn) {
    match t {
        TypeSystemDefinition::Schema(s) => {
            f(&mut s.pos, "schema_definition");
            walk_desc(&mut s.description, f);
            walk_directives(&mut s.directives, f);
            for r in &mut s.root_operations {
                f(&mut r.pos, "root_operation");
                f(&mut r.type_name.pos, "root_operation.type");
            }
        }
        TypeSystemDefinition::Type(t) => {
            f(&mut t.pos, "type_definition");
            walk_desc(&mut t.description, f);
            f(&mut t.name.pos, "type_definition.name");
            match &mut t.kind {
                TypeDefKind::Object { implements, .. } | TypeDefKind::Interface { implements, .. } => {
                    for n in implements {
                        f(&mut n.pos, "implements.name");
                    }
                }
                _ => {}
            }
            walk_directives(&mut t.directives, f);
            match &mut t.kind {
                TypeDefKind::Scalar => {}
                TypeDefKind::Object { fields, .. } | TypeDefKind::Interface { fields, .. } => walk_fields(fields, f),
                TypeDefKind::Union { members } => {
                    for n in members {
                        f(&mut n.pos, "union_member.name");
                    }
                }
                TypeDefKind::Enum { values } => {
                    for v in values {
                        f(&mut v.pos, "enum_value_definition");
                        walk_desc(&mut v.description, f);
                        f(&mut v.value.pos, "enum_value_definition.value");
                        walk_directives(&mut v.directives, f);
                    }
                }
                TypeDefKind::InputObject { fields } => {
                    for v in fields {
                        walk_ivd(v, f);
                    }
                }
            }
        }
        TypeSystemDefinition::Directive(d) => {
            f(&mut d.pos, "directive_definition");
            walk_desc(&mut d.description, f);
            f(&mut d.name.pos, "directive_definition.name");
            for a in &mut d.arguments {
                walk_ivd(a, f);
            }
            for l in &mut d.locations {
                f(&mut l.pos, "directive_location");
            }
        }
    }
}

/// All positions of the tree in walker order, with their labels (for position
/// comparison of two structurally equal trees).
pub fn all_positions(doc: &Document) -> Vec<((usize, usize), &'static str)> {
    let mut d = doc.clone();
    let mut out = vec![];
    for_each_pos_mut(&mut d, &mut |p, l| out.push((p.lc(), l)));
    out
}
