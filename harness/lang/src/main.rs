//! vh-lang: parser, values, scalars, SDL — checks that need no executor schedule control.

mod c15;

fn main() {
    let id = std::env::args().nth(1).unwrap_or_default();
    match id.as_str() {
        "C15" => c15::main(),
        other => {
            println!("INCONCLUSIVE property={other} reason=vh-lang has no check for this property");
            std::process::exit(2);
        }
    }
}
