//! C15 — values print as GraphQL literals and convert to JSON without loss.
//!
//! Oracle: round trip. For a generated value v (own generator, every Unicode
//! class in strings, integers across i64/u64, finite floats across magnitudes,
//! enums, nested lists/objects):
//!   P1  parse("{ f(a: " + Display(v) + ") }").arg("a") == v      (strict: enum stays enum)
//!   P2  same for `Value` with variables inside lists/objects
//!   J1  ConstValue::from_json(v.into_json()) == v               (enum becomes string)
//!   J2  serde_json::from_str::<ConstValue>(serde_json::to_string(v)) == v  (direct serde path)
//!   J3  Variables::from_json / serde round trip keeps every variable
//! `Binary` is not a GraphQL value and is not generated.

use async_graphql_parser::parse_query;
use async_graphql_parser::types::{DocumentOperations, Selection};
use async_graphql_value::{ConstValue, Name, Number, Value, Variables};
use vh_core::serde_json::{self, json};
use vh_core::{Rng, Run, catch, rng};

pub fn gen_string(r: &mut Rng) -> String {
    let len = match r.below(10) {
        0 => 0,
        1..=6 => r.below(6) + 1,
        _ => r.below(24) + 1,
    };
    let mut s = String::new();
    for _ in 0..len {
        let c = match r.below(16) {
            0 => '"',
            1 => '\\',
            2 => *r.pick(&['\r', '\n', '\t', '\u{8}', '\u{c}', '/']),
            3 => char::from_u32(r.below(0x20) as u32).unwrap(), // C0 controls
            4 => *r.pick(&['\u{7f}', '\u{80}', '\u{85}', '\u{9f}', '\u{1b}', '\u{0}']),
            5 => *r.pick(&['\u{2028}', '\u{2029}', '\u{feff}', '\u{a0}', '\u{200b}']),
            6 => char::from_u32(0x80 + r.below(0x780) as u32).unwrap_or('é'),
            7 => char::from_u32(0x800 + r.below(0xD000) as u32).unwrap_or('中'),
            8 => char::from_u32(0x1_0000 + r.below(0xF_0000) as u32).unwrap_or('😀'),
            9 => *r.pick(&['u', 'n', 'x', '{', '}', '$', '#', ',', '\'']),
            _ => (0x20u8 + r.below(0x5f) as u8) as char,
        };
        s.push(c);
    }
    s
}

pub fn gen_name(r: &mut Rng) -> String {
    loop {
        let first = b"_ABCDEFGHIJKLMNOPQRSTUVWXYZabcdefghijklmnopqrstuvwxyz";
        let rest = b"_0123456789ABCDEFGHIJKLMNOPQRSTUVWXYZabcdefghijklmnopqrstuvwxyz";
        let mut s = String::new();
        s.push(*r.pick(first) as char);
        for _ in 0..r.below(6) {
            s.push(*r.pick(rest) as char);
        }
        if !matches!(s.as_str(), "true" | "false" | "null") {
            return s;
        }
    }
}

pub fn gen_number(r: &mut Rng) -> Number {
    match r.below(9) {
        0 => Number::from(r.range(-10, 10)),
        1 => Number::from(r.next_u64() as i64),
        2 => Number::from(r.next_u64()),
        3 => Number::from(*r.pick(&[i64::MIN, i64::MAX, i32::MIN as i64, i32::MAX as i64, 0])),
        4 => Number::from(*r.pick(&[u64::MAX, i64::MAX as u64 + 1, u32::MAX as u64])),
        5 => {
            // random finite double from bits
            loop {
                let f = f64::from_bits(r.next_u64());
                if f.is_finite() {
                    return Number::from_f64(f).unwrap();
                }
            }
        }
        6 => Number::from_f64(*r.pick(&[
            0.0,
            -0.0,
            1.0,
            -1.0,
            1e16,
            1e21,
            1e-7,
            123456789012345680.0,
            f64::MAX,
            f64::MIN,
            f64::MIN_POSITIVE,
            5e-324,
            0.1,
            1.5e300,
        ]))
        .unwrap(),
        7 => Number::from_f64((r.range(-1_000_000, 1_000_000) as f64) / 1000.0).unwrap(),
        _ => Number::from_f64(r.range(-1000, 1000) as f64).unwrap(),
    }
}

pub fn gen_const(r: &mut Rng, depth: u32) -> ConstValue {
    let leaf = depth == 0 || r.chance(3, 5);
    if leaf {
        match r.below(6) {
            0 => ConstValue::Null,
            1 => ConstValue::Number(gen_number(r)),
            2 | 3 => ConstValue::String(gen_string(r)),
            4 => ConstValue::Boolean(r.bool()),
            _ => ConstValue::Enum(Name::new(gen_name(r))),
        }
    } else if r.bool() {
        let n = r.below(4);
        ConstValue::List((0..n).map(|_| gen_const(r, depth - 1)).collect())
    } else {
        let n = r.below(4);
        let mut m = async_graphql_value::indexmap::IndexMap::new();
        for _ in 0..n {
            m.insert(Name::new(gen_name(r)), gen_const(r, depth - 1));
        }
        ConstValue::Object(m)
    }
}

fn gen_value(r: &mut Rng, depth: u32) -> Value {
    if r.chance(1, 5) {
        return Value::Variable(Name::new(gen_name(r)));
    }
    let leaf = depth == 0 || r.chance(1, 2);
    if leaf {
        gen_const(r, 0).into_value()
    } else if r.bool() {
        let n = r.below(4);
        Value::List((0..n).map(|_| gen_value(r, depth - 1)).collect())
    } else {
        let n = r.below(4);
        let mut m = async_graphql_value::indexmap::IndexMap::new();
        for _ in 0..n {
            m.insert(Name::new(gen_name(r)), gen_value(r, depth - 1));
        }
        Value::Object(m)
    }
}

/// Strict equality: enum ≠ string, number representations must be equal,
/// object keys compared as a map (order-insensitive).
pub fn strict_eq(a: &ConstValue, b: &ConstValue, enum_as_string: bool) -> bool {
    use ConstValue as C;
    match (a, b) {
        (C::Null, C::Null) => true,
        (C::Number(x), C::Number(y)) => num_eq(x, y),
        (C::String(x), C::String(y)) => x == y,
        (C::Boolean(x), C::Boolean(y)) => x == y,
        (C::Enum(x), C::Enum(y)) => x == y,
        (C::Enum(x), C::String(y)) if enum_as_string => x.as_str() == y,
        (C::List(x), C::List(y)) => {
            x.len() == y.len() && x.iter().zip(y).all(|(p, q)| strict_eq(p, q, enum_as_string))
        }
        (C::Object(x), C::Object(y)) => {
            x.len() == y.len()
                && x.iter().all(|(k, v)| {
                    y.get(k.as_str())
                        .map(|w| strict_eq(v, w, enum_as_string))
                        .unwrap_or(false)
                })
        }
        _ => false,
    }
}

fn num_eq(x: &Number, y: &Number) -> bool {
    if x.is_f64() != y.is_f64() {
        return false;
    }
    if x.is_f64() {
        let (a, b) = (x.as_f64().unwrap(), y.as_f64().unwrap());
        a == b && a.is_sign_negative() == b.is_sign_negative()
    } else if let (Some(a), Some(b)) = (x.as_i64(), y.as_i64()) {
        a == b
    } else {
        x.as_u64().is_some() && x.as_u64() == y.as_u64()
    }
}

fn value_strict_eq(a: &Value, b: &Value) -> bool {
    use Value as V;
    match (a, b) {
        (V::Variable(x), V::Variable(y)) => x == y,
        (V::Null, V::Null) => true,
        (V::Number(x), V::Number(y)) => num_eq(x, y),
        (V::String(x), V::String(y)) => x == y,
        (V::Boolean(x), V::Boolean(y)) => x == y,
        (V::Enum(x), V::Enum(y)) => x == y,
        (V::List(x), V::List(y)) => x.len() == y.len() && x.iter().zip(y).all(|(p, q)| value_strict_eq(p, q)),
        (V::Object(x), V::Object(y)) => {
            x.len() == y.len()
                && x.iter()
                    .all(|(k, v)| y.get(k.as_str()).map(|w| value_strict_eq(v, w)).unwrap_or(false))
        }
        _ => false,
    }
}

/// Parse `{ f(a: <text>) }` with the crate's parser and return the argument.
pub fn parse_arg(text: &str) -> Result<Value, String> {
    let doc = parse_query(format!("{{ f(a: {text}) }}")).map_err(|e| format!("parse error: {e}"))?;
    let op = match &doc.operations {
        DocumentOperations::Single(op) => op,
        DocumentOperations::Multiple(_) => return Err("multiple operations".into()),
    };
    let sel = op.node.selection_set.node.items.first().ok_or("no selection")?;
    match &sel.node {
        Selection::Field(f) => f
            .node
            .arguments
            .first()
            .map(|(_, v)| v.node.clone())
            .ok_or_else(|| "no argument".to_string()),
        _ => Err("not a field".into()),
    }
}

fn is_nontrivial(text: &str) -> bool {
    text.contains('\\') || text.contains('[') || text.contains('{') || text.contains('e') || !text.is_ascii()
}

pub fn main() {
    let mut run = Run::from_args(
        "exploration",
        "random nested GraphQL values (strings over every Unicode class incl. C0/C1 controls, quotes, backslashes, \
         U+2028/9, non-BMP; i64/u64 boundaries; finite doubles from random bits; enums; lists; objects) printed with \
         Display and re-parsed by parse_query, converted to JSON and back (into_json/from_json, direct serde, \
         Variables); a case is non-trivial when its printed form needs an escape, nesting, an exponent or non-ASCII; \
         distinct by hash of the printed text",
    );
    run.assume("serde_json (oracle side) parses and prints JSON correctly");
    run.assume("strict equality is defined by the harness: enum≠string on the print path, number kind (int/float) preserved, object keys as a map");
    let n = run.scale(40_000, 3_000_000);
    let mut r = Rng::new(rng::mix(&[run.seed, 15]));
    run.set_floors(1000, 200);

    // deterministic boundary cases first: every C0/C1 control and a few specials, alone in a string
    let mut specials: Vec<ConstValue> = vec![];
    for cp in (0u32..0x20).chain(0x7f..0xa0) {
        specials.push(ConstValue::String(char::from_u32(cp).unwrap().to_string()));
    }
    for s in ["\"", "\\", "\"\"\"", "\\u0041", "\u{2028}", "\u{1F600}", "a\"b\\c\nd", ""] {
        specials.push(ConstValue::String(s.to_string()));
    }
    // regression witnesses of fixed findings (doubles that a one-ULP-inexact float parser gets wrong)
    for f in [1.031754631372895e-257, 4.0356922491291457e-286, -1.8047703715929818e-200] {
        specials.push(ConstValue::Number(Number::from_f64(f).unwrap()));
    }
    let total = n as usize + specials.len();
    for i in 0..total {
        let v = if i < specials.len() {
            specials[i].clone()
        } else {
            gen_const(&mut r, 3)
        };
        check_const(&run, &v);
        if i % 4 == 0 {
            let w = gen_value(&mut r, 3);
            check_value(&run, &w);
        }
        if i % 16 == 0 {
            check_variables(&run, &mut r);
        }
    }
    run.finish();
}

fn check_const(run: &Run, v: &ConstValue) {
    run.eval();
    let text = v.to_string();
    if is_nontrivial(&text) {
        run.nontrivial(rng::hash_str(&text));
    }
    run.sample(json!({"value_debug": format!("{v:?}"), "printed": text}));
    // P1
    match catch(|| parse_arg(&text)) {
        Err(p) => run.violation(
            &format!("P1-panic:{:x}", rng::hash_str(&text)),
            &format!("parser panicked on printed value {text:?}: {p}"),
            json!({"printed": text, "value_debug": format!("{v:?}")}),
        ),
        Ok(Err(e)) => {
            run.count("print_parse_fail", 1);
            run.violation(
                &format!("P1-unparsable:{:x}", rng::hash_str(&text)),
                &format!("Display output of {v:?} is not parseable as a GraphQL literal: {text:?}: {e}"),
                json!({"printed": text, "value_debug": format!("{v:?}")}),
            )
        }
        Ok(Ok(back)) => match back.into_const() {
            Some(b) if strict_eq(v, &b, false) => run.count("print_parse_ok", 1),
            other => run.violation(
                &format!("P1-differs:{:x}", rng::hash_str(&text)),
                &format!("parse(Display(v)) != v: v={v:?} printed={text:?} parsed back={other:?}"),
                json!({"printed": text, "value_debug": format!("{v:?}"), "back": format!("{other:?}")}),
            ),
        },
    }
    // J1
    match v.clone().into_json() {
        Err(e) => run.violation(
            &format!("J1-intojson:{:x}", rng::hash_str(&text)),
            &format!("into_json failed for {v:?}: {e}"),
            json!({"value_debug": format!("{v:?}")}),
        ),
        Ok(j) => match ConstValue::from_json(j.clone()) {
            Ok(b) if strict_eq(v, &b, true) => run.count("json_value_ok", 1),
            other => run.violation(
                &format!("J1-differs:{:x}", rng::hash_str(&text)),
                &format!("from_json(into_json(v)) != v: v={v:?} json={j} back={other:?}"),
                json!({"value_debug": format!("{v:?}"), "json": j}),
            ),
        },
    }
    // J2
    match serde_json::to_string(v) {
        Err(e) => run.violation(
            &format!("J2-ser:{:x}", rng::hash_str(&text)),
            &format!("serde_json::to_string failed for {v:?}: {e}"),
            json!({"value_debug": format!("{v:?}")}),
        ),
        Ok(s) => match serde_json::from_str::<ConstValue>(&s) {
            Ok(b) if strict_eq(v, &b, true) => run.count("json_text_ok", 1),
            other => run.violation(
                &format!("J2-differs:{:x}", rng::hash_str(&text)),
                &format!("from_str(to_string(v)) != v: v={v:?} json text={s} back={other:?}"),
                json!({"value_debug": format!("{v:?}"), "json_text": s}),
            ),
        },
    }
}

fn check_value(run: &Run, v: &Value) {
    run.eval();
    let text = v.to_string();
    if is_nontrivial(&text) {
        run.nontrivial(rng::hash_str(&text));
    }
    match catch(|| parse_arg(&text)) {
        Ok(Ok(back)) if value_strict_eq(v, &back) => run.count("value_with_variables_ok", 1),
        other => run.violation(
            &format!("P2:{:x}", rng::hash_str(&text)),
            &format!("parse(Display(value)) != value: v={v:?} printed={text:?} back={other:?}"),
            json!({"printed": text, "value_debug": format!("{v:?}")}),
        ),
    }
}

fn check_variables(run: &Run, r: &mut Rng) {
    run.eval();
    let mut m = serde_json::Map::new();
    let mut expect: Vec<(String, ConstValue)> = vec![];
    for _ in 0..r.below(4) {
        let k = gen_name(r);
        let v = gen_const(r, 2);
        // enums become strings through JSON
        let Ok(j) = v.clone().into_json() else { continue };
        if m.contains_key(&k) {
            continue;
        }
        m.insert(k.clone(), j);
        expect.push((k, v));
    }
    let j = serde_json::Value::Object(m);
    let vars = Variables::from_json(j.clone());
    let vars2: Result<Variables, _> = serde_json::from_value(j.clone());
    let mut ok = vars.len() == expect.len();
    for (k, v) in &expect {
        match vars.get(&Name::new(k)) {
            Some(b) if strict_eq(v, b, true) => {}
            _ => ok = false,
        }
    }
    let ok2 = match &vars2 {
        Ok(v2) => {
            v2.len() == expect.len()
                && expect
                    .iter()
                    .all(|(k, v)| v2.get(&Name::new(k)).map(|b| strict_eq(v, b, true)).unwrap_or(false))
        }
        Err(_) => false,
    };
    // and back out through serde
    let out = serde_json::to_value(&vars).ok();
    let ok3 = out
        .as_ref()
        .and_then(|o| ConstValue::from_json(o.clone()).ok())
        .map(|o| {
            let want = ConstValue::from_json(j.clone()).unwrap();
            strict_eq(&want, &o, true)
        })
        .unwrap_or(false);
    if ok && ok2 && ok3 {
        run.count("variables_ok", 1);
    } else {
        run.violation(
            &format!("J3:{:x}", rng::hash_str(&j.to_string())),
            &format!("Variables JSON round trip lost information: json={j} from_json={vars:?} deserialize={vars2:?} serialize={out:?}"),
            json!({"json": j}),
        );
    }
}
