//! Reading the exported SDL (through R2, the harness' independent parser)
//! into the monitor's model.

use vh_model::Ty;
use vh_r2 as r2;

use crate::im::*;
use crate::value::from_r2;

fn ty(t: &r2::Type) -> Ty {
    let base = match &t.base {
        r2::TypeBase::Named(n) => Ty::Named(n.clone()),
        r2::TypeBase::List(inner) => Ty::List(Box::new(ty(inner))),
    };
    if t.non_null { Ty::NonNull(Box::new(base)) } else { base }
}

fn desc(d: &Option<r2::Description>) -> Option<String> {
    d.as_ref().map(|d| d.text().to_string())
}

fn dep(ds: &[r2::Directive]) -> Dep {
    r2::find_directive(ds, "deprecated").map(|d| d.argument("reason").and_then(|v| v.as_str()).map(|s| s.to_string()))
}

fn input_value(v: &r2::InputValueDefinition) -> IArg {
    IArg {
        name: v.name.value.clone(),
        ty: ty(&v.ty),
        default: v.default_value.as_ref().map(from_r2),
        desc: desc(&v.description),
        dep: dep(&v.directives),
    }
}

fn field(f: &r2::FieldDefinition) -> IField {
    IField {
        name: f.name.value.clone(),
        args: f.arguments.iter().map(input_value).collect(),
        ty: ty(&f.ty),
        desc: desc(&f.description),
        dep: dep(&f.directives),
    }
}

pub fn from_sdl(sdl: &str) -> Result<IModel, String> {
    let parsed = r2::parse_type_system(sdl, &r2::Options::default()).map_err(|e| format!("R2 rejects the SDL: {e}"))?;
    let doc = parsed.doc;
    let mut m = with_builtins("Query");
    for t in doc.types() {
        if t.extend {
            return Err(format!("SDL contains `extend` for {}", t.name.value));
        }
        let kind = match &t.kind {
            r2::TypeDefKind::Scalar => IKind::Scalar {
                specified_by: r2::find_directive(&t.directives, "specifiedBy")
                    .and_then(|d| d.argument("url"))
                    .and_then(|v| v.as_str())
                    .map(|s| s.to_string()),
            },
            r2::TypeDefKind::Object { implements, fields } => IKind::Object {
                fields: fields.iter().map(field).collect(),
                implements: implements.iter().map(|n| n.value.clone()).collect(),
            },
            r2::TypeDefKind::Interface { implements, fields } => IKind::Interface {
                fields: fields.iter().map(field).collect(),
                implements: implements.iter().map(|n| n.value.clone()).collect(),
            },
            r2::TypeDefKind::Union { members } => IKind::Union { members: members.iter().map(|n| n.value.clone()).collect() },
            r2::TypeDefKind::Enum { values } => IKind::Enum {
                values: values
                    .iter()
                    .map(|v| IEnumVal { name: v.value.value.clone(), desc: desc(&v.description), dep: dep(&v.directives) })
                    .collect(),
            },
            r2::TypeDefKind::InputObject { fields } => IKind::Input {
                fields: fields.iter().map(input_value).collect(),
                oneof: r2::find_directive(&t.directives, "oneOf").is_some(),
            },
        };
        if m.types.contains_key(&t.name.value) && !is_builtin_scalar(&t.name.value) {
            return Err(format!("SDL defines {} twice", t.name.value));
        }
        m.add(IType { name: t.name.value.clone(), desc: desc(&t.description), kind });
    }
    let mut saw_schema = false;
    for s in doc.schema_definitions() {
        if s.extend {
            continue;
        }
        if saw_schema {
            return Err("SDL has two schema definitions".into());
        }
        saw_schema = true;
        m.query = String::new();
        for r in &s.root_operations {
            match r.kind {
                r2::OperationKind::Query => m.query = r.type_name.value.clone(),
                r2::OperationKind::Mutation => m.mutation = Some(r.type_name.value.clone()),
                r2::OperationKind::Subscription => m.subscription = Some(r.type_name.value.clone()),
            }
        }
    }
    if !saw_schema {
        // default root names (spec §3.3.1)
        let is_obj = |m: &IModel, n: &str| matches!(m.types.get(n).map(|t| &t.kind), Some(IKind::Object { .. }));
        if is_obj(&m, "Mutation") {
            m.mutation = Some("Mutation".into());
        }
        if is_obj(&m, "Subscription") {
            m.subscription = Some("Subscription".into());
        }
    }
    Ok(m)
}
