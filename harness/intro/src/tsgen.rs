//! Random type systems (valid by construction) in the monitor's rich model,
//! and the builder that registers one on `async_graphql::dynamic`.
//!
//! Compared with `vh_model::gen_ts` (which the executor checks use) this
//! generator adds what only introspection and SDL can show: descriptions on
//! every definition kind, deprecations with and without reasons on fields,
//! arguments, input fields and enum values, `specifiedByURL`, a subscription
//! root, interface inheritance as an arbitrary DAG (`interface C implements A
//! & B`) and as straight chains of depth 3 to 5 (every type declares the full
//! closure of what it implements, which the specification requires; a type
//! that declares only its nearest interface is an invalid schema whose
//! treatment by `dynamic::SchemaBuilder::finish` is not documented, so it is
//! not generated), interfaces without implementors, and types that
//! are reachable only through one particular route (possible type of an
//! interface, member of a union, interface of an object, argument of a field).

use std::collections::BTreeSet;

use async_graphql::dynamic::*;
use vh_core::Rng;
use vh_model::{Ty, Val};
use async_graphql::{Name, Value as CV};

use crate::im::*;

#[derive(Clone, Debug)]
pub struct GenOpts {
    /// descriptions / reasons with quotes, backslashes, newlines, `"""`, ...
    pub hostile_text: bool,
    /// `interface B implements A`
    pub interface_inheritance: bool,
    pub subscription: bool,
    /// allow interfaces that get listed only because an object made visible by *another* interface's possible
    /// types implements them (needs more than one pass over the interfaces)
    pub later_pass_interfaces: bool,
    /// registered types that nothing refers to
    pub orphans: bool,
}

const WORDS: [&str; 12] =
    ["alpha", "the", "unit", "of", "Größe", "value", "list", "früher", "node", "per", "cent", "id"];

fn plain_text(r: &mut Rng) -> String {
    let n = 1 + r.below(4);
    (0..n).map(|_| *r.pick(&WORDS[..])).collect::<Vec<_>>().join(" ")
}

fn hostile_text(r: &mut Rng) -> String {
    const BITS: [&str; 16] = [
        "\"", "\\", "\n", "\"\"\"", "  ", "\t", "'", "\\n", "é", "😀", "#", "\r\n", "\\\"", "{", "$x", "\u{7f}",
    ];
    if r.chance(1, 12) {
        return String::new();
    }
    let n = 1 + r.below(5);
    let mut s = String::new();
    for _ in 0..n {
        if r.chance(1, 2) {
            s.push_str(*r.pick(&WORDS[..]));
        } else {
            s.push_str(*r.pick(&BITS[..]));
        }
        if r.chance(1, 3) {
            s.push(' ');
        }
    }
    s
}

struct G<'a> {
    r: &'a mut Rng,
    o: &'a GenOpts,
}

impl G<'_> {
    fn text(&mut self) -> String {
        if self.o.hostile_text && self.r.chance(1, 2) { hostile_text(self.r) } else { plain_text(self.r) }
    }
    fn desc(&mut self) -> Option<String> {
        if self.r.chance(2, 5) { Some(self.text()) } else { None }
    }
    fn dep(&mut self, num: u32, den: u32) -> Dep {
        if self.r.chance(num, den) {
            Some(if self.r.chance(1, 4) { None } else { Some(self.text()) })
        } else {
            None
        }
    }
    fn wrap(&mut self, base: Ty) -> Ty {
        let r = &mut *self.r;
        let mut t = base;
        if r.chance(2, 5) {
            t = t.nn();
        }
        if r.chance(1, 3) {
            t = t.list();
            if r.chance(1, 2) {
                t = t.nn();
            }
            if r.chance(1, 5) {
                t = t.list();
                if r.chance(1, 2) {
                    t = t.nn();
                }
                if r.chance(1, 4) {
                    t = t.list();
                    if r.chance(1, 2) {
                        t = t.nn();
                    }
                }
            }
        }
        t
    }
}

fn literal(m: &IModel, ty: &Ty, r: &mut Rng, depth: u32, allow_null: bool) -> Val {
    match ty {
        Ty::NonNull(t) => literal(m, t, r, depth, false),
        _ if allow_null && r.chance(1, 8) => Val::Null,
        Ty::List(item) => {
            let n = r.below(3);
            Val::List((0..n).map(|_| literal(m, item, r, depth, true)).collect())
        }
        Ty::Named(n) => match n.as_str() {
            "Int" => Val::Int(*r.pick(&[0, 1, -1, 7, 42, i32::MAX as i64, i32::MIN as i64])),
            "Float" => r.pick(&[Val::Float(0.5), Val::Float(-2.25), Val::Int(3), Val::Float(1e21), Val::Float(1.0e-7)]).clone(),
            "String" => Val::Str(r.pick(&["", "x", "hello", "a b", "q\"q", "é", "back\\slash", "line\nbreak", "\u{1b}"]).to_string()),
            "Boolean" => Val::Bool(r.bool()),
            "ID" => {
                if r.bool() {
                    Val::Str(format!("id{}", r.below(9)))
                } else {
                    Val::Int(r.below(99) as i64)
                }
            }
            other => match m.types.get(other).map(|t| &t.kind) {
                Some(IKind::Scalar { .. }) => r.pick(&[Val::Int(4), Val::Str("s".into()), Val::Bool(true)]).clone(),
                Some(IKind::Enum { values }) => Val::Enum(r.pick(values).name.clone()),
                Some(IKind::Input { fields, oneof }) => {
                    if *oneof {
                        let f = r.pick(fields);
                        return Val::Obj(vec![(f.name.clone(), literal(m, &f.ty, r, depth.saturating_sub(1), false))]);
                    }
                    let mut out = vec![];
                    for f in fields {
                        let required = f.ty.is_nonnull() && f.default.is_none();
                        let nested = matches!(m.types.get(f.ty.name()).map(|t| &t.kind), Some(IKind::Input { .. }));
                        if nested && depth == 0 {
                            continue; // nested input objects are never required (see below)
                        }
                        if required || r.chance(3, 5) {
                            out.push((f.name.clone(), literal(m, &f.ty, r, depth.saturating_sub(1), true)));
                        }
                    }
                    Val::Obj(out)
                }
                _ => Val::Null,
            },
        },
    }
}

/// Generate a random valid type system. Every type is reachable from a root
/// (introspection lists reachable types only).
pub fn gen_model(r: &mut Rng, o: &GenOpts) -> IModel {
    let mut m = with_builtins("Query");
    let mut g = G { r, o };

    // custom scalars
    let n_sc = g.r.below(3);
    for i in 0..n_sc {
        let specified_by = if g.r.chance(1, 2) { Some(format!("https://example.org/sc{i}?a=1&b=%22")) } else { None };
        let desc = g.desc();
        m.add(IType { name: format!("Sc{i}"), desc, kind: IKind::Scalar { specified_by } });
    }
    // enums
    let n_en = 1 + g.r.below(2);
    for i in 0..n_en {
        let n = 1 + g.r.below(4);
        let values = (0..n)
            .map(|j| IEnumVal { name: format!("E{i}V{j}"), desc: g.desc(), dep: g.dep(1, 4) })
            .collect();
        let desc = g.desc();
        m.add(IType { name: format!("En{i}"), desc, kind: IKind::Enum { values } });
    }
    let leafs: Vec<String> = m.types.keys().cloned().collect();

    // input objects: declared empty first so that they can refer to each other
    let n_in = g.r.below(4);
    let mut inputs: Vec<String> = (0..n_in).map(|i| format!("In{i}")).collect();
    for n in &inputs {
        m.add(IType { name: n.clone(), desc: None, kind: IKind::Input { fields: vec![], oneof: false } });
    }
    for i in 0..n_in {
        let nf = 1 + g.r.below(4);
        let mut fields = vec![];
        for j in 0..nf {
            let nested = g.r.chance(1, 4);
            let base = if nested { Ty::named(g.r.pick(&inputs).as_str()) } else { Ty::named(g.r.pick(&leafs).as_str()) };
            let mut ty = g.wrap(base);
            if nested {
                ty = ty.nullable().clone(); // no required cycles
            }
            let default = if !nested && g.r.chance(1, 3) { Some(literal(&m, &ty, g.r, 1, true)) } else { None };
            let optional = !ty.is_nonnull() || default.is_some();
            let dep = if optional { g.dep(1, 6) } else { None };
            fields.push(IArg { name: format!("f{j}"), ty, default, desc: g.desc(), dep });
        }
        let desc = g.desc();
        m.add(IType { name: format!("In{i}"), desc, kind: IKind::Input { fields, oneof: false } });
    }
    if g.r.chance(1, 2) {
        let nf = 1 + g.r.below(3);
        let fields = (0..nf)
            .map(|j| {
                let base = if !inputs.is_empty() && g.r.chance(1, 4) { Ty::named(g.r.pick(&inputs).as_str()) } else { Ty::named(g.r.pick(&leafs).as_str()) };
                let ty = if g.r.chance(1, 4) { base.list() } else { base };
                IArg { name: format!("o{j}"), ty, default: None, desc: g.desc(), dep: g.dep(1, 8) }
            })
            .collect();
        let desc = g.desc();
        m.add(IType { name: "Pick".into(), desc, kind: IKind::Input { fields, oneof: true } });
        inputs.push("Pick".into());
    }

    // composite output type names, fixed up front so that fields can refer to any of them
    let n_ob = 1 + g.r.below(5);
    let objs: Vec<String> = (0..n_ob).map(|i| format!("Ob{i}")).collect();
    // now and then a straight inheritance chain of 3 to 5 interfaces (If0 <- If1 <- If2 ...): every later
    // interface implements its predecessor and, as the specification demands, everything that one implements
    let chain_mode = o.interface_inheritance && g.r.chance(1, 4);
    let n_if = if chain_mode { 3 + g.r.below(3) } else { g.r.below(5) };
    let ifs: Vec<String> = (0..n_if).map(|i| format!("If{i}")).collect();
    let n_un = g.r.below(3);
    let uns: Vec<String> = (0..n_un).map(|i| format!("Un{i}")).collect();
    let mut composites = objs.clone();
    composites.extend(ifs.iter().cloned());
    composites.extend(uns.iter().cloned());

    let mut counter = 0usize;
    let mut gen_field = |g: &mut G, m: &IModel, prefix: &str, leaf_only: bool| -> IField {
        counter += 1;
        let base = if !leaf_only && g.r.chance(2, 5) { Ty::named(g.r.pick(&composites).as_str()) } else { Ty::named(g.r.pick(&leafs).as_str()) };
        let ty = g.wrap(base);
        let mut args = vec![];
        if g.r.chance(2, 5) {
            let na = 1 + g.r.below(3);
            for a in 0..na {
                let base = if !inputs.is_empty() && g.r.chance(1, 3) { Ty::named(g.r.pick(&inputs).as_str()) } else { Ty::named(g.r.pick(&leafs).as_str()) };
                let aty = g.wrap(base);
                let default = if g.r.chance(2, 5) { Some(literal(m, &aty, g.r, 2, true)) } else { None };
                let optional = !aty.is_nonnull() || default.is_some();
                let dep = if optional { g.dep(1, 6) } else { None };
                args.push(IArg { name: format!("a{a}"), ty: aty, default, desc: g.desc(), dep });
            }
        }
        IField { name: format!("{prefix}{counter}"), args, ty, desc: g.desc(), dep: g.dep(1, 6) }
    };

    // interfaces: Ik may implement any earlier interfaces (closed under inheritance)
    let mut if_fields: Vec<Vec<IField>> = vec![];
    let mut if_impl: Vec<Vec<String>> = vec![];
    for i in 0..n_if {
        let mut implements: Vec<String> = vec![];
        let mut fields: Vec<IField> = vec![];
        if o.interface_inheritance && i > 0 {
            for j in (0..i).rev() {
                let take = if chain_mode { j + 1 == i || g.r.chance(1, 6) } else { g.r.chance(2, 5) };
                if take && !implements.contains(&ifs[j]) {
                    // Ij and everything Ij implements
                    let mut add = vec![ifs[j].clone()];
                    add.extend(if_impl[j].iter().cloned());
                    for a in add {
                        if !implements.contains(&a) {
                            let idx = ifs.iter().position(|x| x == &a).unwrap();
                            for f in &if_fields[idx] {
                                if !fields.iter().any(|x| x.name == f.name) {
                                    fields.push(f.clone());
                                }
                            }
                            implements.push(a);
                        }
                    }
                }
            }
        }
        let nf = 1 + g.r.below(3);
        for _ in 0..nf {
            fields.push(gen_field(&mut g, &m, "i", false));
        }
        if_fields.push(fields);
        if_impl.push(implements);
    }

    // objects
    let mut ob_defs: Vec<(Vec<IField>, Vec<String>)> = vec![];
    for _ in 0..n_ob {
        let mut fields: Vec<IField> = vec![];
        let mut implements: Vec<String> = vec![];
        for k in (0..n_if).rev() {
            if g.r.chance(2, 5) {
                let mut add = vec![ifs[k].clone()];
                add.extend(if_impl[k].iter().cloned());
                for a in add {
                    if !implements.contains(&a) {
                        let idx = ifs.iter().position(|x| x == &a).unwrap();
                        for f in &if_fields[idx] {
                            if !fields.iter().any(|x| x.name == f.name) {
                                let mut f = f.clone();
                                // the implementation may describe / deprecate its field differently
                                if g.r.chance(1, 3) {
                                    f.desc = g.desc();
                                }
                                if g.r.chance(1, 4) {
                                    f.dep = g.dep(1, 2);
                                }
                                fields.push(f);
                            }
                        }
                        implements.push(a);
                    }
                }
            }
        }
        let nf = 1 + g.r.below(4);
        for _ in 0..nf {
            fields.push(gen_field(&mut g, &m, "f", false));
        }
        if g.r.bool() {
            g.r.shuffle(&mut implements);
        }
        ob_defs.push((fields, implements));
    }
    for (i, (fields, implements)) in ob_defs.into_iter().enumerate() {
        let desc = g.desc();
        m.add(IType { name: objs[i].clone(), desc, kind: IKind::Object { fields, implements } });
    }
    for (i, fields) in if_fields.into_iter().enumerate() {
        let desc = g.desc();
        m.add(IType { name: ifs[i].clone(), desc, kind: IKind::Interface { fields, implements: if_impl[i].clone() } });
    }
    for u in &uns {
        let n = 1 + g.r.below(n_ob.min(3));
        let mut members: Vec<String> = vec![];
        while members.len() < n {
            let c = g.r.pick(&objs).clone();
            if !members.contains(&c) {
                members.push(c);
            }
        }
        let desc = g.desc();
        m.add(IType { name: u.clone(), desc, kind: IKind::Union { members } });
    }

    // roots
    let mut qf: Vec<IField> = vec![];
    let nq = 1 + g.r.below(3);
    for _ in 0..nq {
        qf.push(gen_field(&mut g, &m, "q", false));
    }
    let desc = g.desc();
    m.add(IType { name: "Query".into(), desc, kind: IKind::Object { fields: qf, implements: vec![] } });
    if g.r.chance(1, 2) {
        let n = 1 + g.r.below(3);
        let mf = (0..n).map(|_| gen_field(&mut g, &m, "m", false)).collect();
        let desc = g.desc();
        m.add(IType { name: "Mutation".into(), desc, kind: IKind::Object { fields: mf, implements: vec![] } });
        m.mutation = Some("Mutation".into());
    }
    if o.subscription && g.r.chance(1, 3) {
        let n = 1 + g.r.below(2);
        let sf = (0..n).map(|_| gen_field(&mut g, &m, "s", false)).collect();
        let desc = g.desc();
        m.add(IType { name: "Subscription".into(), desc, kind: IKind::Object { fields: sf, implements: vec![] } });
        m.subscription = Some("Subscription".into());
    }

    // make every type reachable: one more Query field per type that is not
    loop {
        let reach = reachable(&m);
        let missing: Vec<String> =
            m.types.keys().filter(|n| !reach.contains(*n) && !is_builtin_scalar(n)).cloned().collect();
        let Some(n) = missing.first().cloned() else { break };
        counter += 1;
        let is_input = matches!(m.types[&n].kind, IKind::Input { .. });
        let f = if is_input {
            let ty = g.wrap(Ty::named(&n));
            IField {
                name: format!("r{counter}"),
                args: vec![IArg { name: "a0".into(), ty, default: None, desc: None, dep: None }],
                ty: Ty::named("Int"),
                desc: None,
                dep: None,
            }
        } else {
            IField { name: format!("r{counter}"), args: vec![], ty: g.wrap(Ty::named(&n)), desc: None, dep: None }
        };
        if let Some(IType { kind: IKind::Object { fields, .. }, .. }) = m.types.get_mut("Query") {
            fields.push(f);
        }
    }
    // now and then: registered types nothing refers to (SDL shows them; introspection may leave them out,
    // but then `__type(name:)` must not know them either)
    if o.orphans && g.r.chance(1, 4) {
        let desc = g.desc();
        m.add(IType {
            name: "OrphanOb".into(),
            desc,
            kind: IKind::Object {
                fields: vec![IField { name: "o1".into(), args: vec![], ty: Ty::named("Int"), desc: None, dep: None }],
                implements: vec![],
            },
        });
        if g.r.bool() {
            m.add(IType {
                name: "OrphanEn".into(),
                desc: None,
                kind: IKind::Enum { values: vec![IEnumVal { name: "ORPHAN_A".into(), desc: None, dep: None }] },
            });
        }
        if g.r.bool() {
            m.add(IType {
                name: "OrphanIn".into(),
                desc: None,
                kind: IKind::Input {
                    fields: vec![IArg { name: "x".into(), ty: Ty::named("Int"), default: None, desc: None, dep: None }],
                    oneof: false,
                },
            });
        }
    }
    if !o.later_pass_interfaces {
        loop {
            let missed = needs_later_pass(&m);
            let Some(n) = missed.first().cloned() else { break };
            counter += 1;
            let f = IField { name: format!("r{counter}"), args: vec![], ty: g.wrap(Ty::named(&n)), desc: None, dep: None };
            if let Some(IType { kind: IKind::Object { fields, .. }, .. }) = m.types.get_mut("Query") {
                fields.push(f);
            }
        }
    }
    m
}

/// Interfaces that are reachable (see `reachable`) but that one pass over the
/// interfaces in name order, each looking for an already reached implementor,
/// does not reach.
pub fn needs_later_pass(m: &IModel) -> Vec<String> {
    fn visit(m: &IModel, n: &str, seen: &mut BTreeSet<String>) {
        if !seen.insert(n.to_string()) {
            return;
        }
        let Some(t) = m.types.get(n) else { return };
        match &t.kind {
            IKind::Object { fields, .. } | IKind::Interface { fields, .. } => {
                for f in fields {
                    visit(m, f.ty.name(), seen);
                    for a in &f.args {
                        visit(m, a.ty.name(), seen);
                    }
                }
                if matches!(t.kind, IKind::Interface { .. }) {
                    for o in m.implementors(n) {
                        visit(m, &o, seen);
                    }
                }
            }
            IKind::Union { members } => {
                for x in members {
                    visit(m, x, seen);
                }
            }
            IKind::Input { fields, .. } => {
                for a in fields {
                    visit(m, a.ty.name(), seen);
                }
            }
            _ => {}
        }
    }
    let mut seen = BTreeSet::new();
    for r in [Some(&m.query), m.mutation.as_ref(), m.subscription.as_ref()].into_iter().flatten() {
        visit(m, r, &mut seen);
    }
    for t in m.types.values() {
        if matches!(t.kind, IKind::Interface { .. })
            && !seen.contains(&t.name)
            && m.implementors(&t.name).iter().any(|o| seen.contains(o))
        {
            visit(m, &t.name, &mut seen);
        }
    }
    let ideal = reachable(m);
    ideal
        .into_iter()
        .filter(|n| !seen.contains(n) && matches!(m.types.get(n).map(|t| &t.kind), Some(IKind::Interface { .. })))
        .collect()
}

/// Types reachable from the root operation types: through field and argument
/// types, input field types, union members, implementors of an interface and
/// the interfaces an object declares.
pub fn reachable(m: &IModel) -> BTreeSet<String> {
    let mut seen: BTreeSet<String> = BTreeSet::new();
    let mut stack: Vec<String> = vec![m.query.clone()];
    stack.extend(m.mutation.iter().cloned());
    stack.extend(m.subscription.iter().cloned());
    while let Some(n) = stack.pop() {
        if !seen.insert(n.clone()) {
            continue;
        }
        let Some(t) = m.types.get(&n) else { continue };
        match &t.kind {
            IKind::Object { fields, implements } => {
                for f in fields {
                    stack.push(f.ty.name().to_string());
                    stack.extend(f.args.iter().map(|a| a.ty.name().to_string()));
                }
                stack.extend(implements.iter().cloned());
            }
            IKind::Interface { fields, .. } => {
                for f in fields {
                    stack.push(f.ty.name().to_string());
                    stack.extend(f.args.iter().map(|a| a.ty.name().to_string()));
                }
                stack.extend(m.implementors(&n));
            }
            IKind::Union { members } => stack.extend(members.iter().cloned()),
            IKind::Input { fields, .. } => stack.extend(fields.iter().map(|a| a.ty.name().to_string())),
            _ => {}
        }
    }
    seen
}

// --------------------------------------------------------------- dynamic build

pub fn type_ref(t: &Ty) -> TypeRef {
    match t {
        Ty::Named(n) => TypeRef::Named(n.clone().into()),
        Ty::List(i) => TypeRef::List(Box::new(type_ref(i))),
        Ty::NonNull(i) => TypeRef::NonNull(Box::new(type_ref(i))),
    }
}

pub fn from_val(v: &Val) -> CV {
    match v {
        Val::Null => CV::Null,
        Val::Int(i) => CV::from(*i),
        Val::Float(f) => CV::from(*f),
        Val::Str(s) => CV::String(s.clone()),
        Val::Bool(b) => CV::Boolean(*b),
        Val::Enum(e) => CV::Enum(Name::new(e)),
        Val::List(xs) => CV::List(xs.iter().map(from_val).collect()),
        Val::Obj(m) => CV::Object(m.iter().map(|(k, v)| (Name::new(k), from_val(v))).collect()),
        Val::Var(v) => panic!("variable ${v} cannot be converted to a const value"),
    }
}

fn input_value(a: &IArg) -> InputValue {
    let mut iv = InputValue::new(a.name.clone(), type_ref(&a.ty));
    if let Some(d) = &a.default {
        iv = iv.default_value(from_val(d));
    }
    if let Some(d) = &a.desc {
        iv = iv.description(d.clone());
    }
    if let Some(r) = &a.dep {
        iv = iv.deprecation(r.as_deref());
    }
    iv
}

/// Register the model on a dynamic schema builder (resolvers answer null:
/// only the type system matters here).
pub fn builder(m: &IModel) -> SchemaBuilder {
    let mut b = Schema::build(&m.query, m.mutation.as_deref(), m.subscription.as_deref());
    for t in m.types.values() {
        if is_builtin_scalar(&t.name) {
            continue;
        }
        match &t.kind {
            IKind::Scalar { specified_by } => {
                let mut s = Scalar::new(t.name.clone());
                if let Some(u) = specified_by {
                    s = s.specified_by_url(u.clone());
                }
                if let Some(d) = &t.desc {
                    s = s.description(d.clone());
                }
                b = b.register(s);
            }
            IKind::Enum { values } => {
                let mut e = Enum::new(t.name.clone());
                for v in values {
                    let mut it = EnumItem::new(v.name.clone());
                    if let Some(d) = &v.desc {
                        it = it.description(d.clone());
                    }
                    if let Some(r) = &v.dep {
                        it = it.deprecation(r.as_deref());
                    }
                    e = e.item(it);
                }
                if let Some(d) = &t.desc {
                    e = e.description(d.clone());
                }
                b = b.register(e);
            }
            IKind::Object { fields, implements } if Some(&t.name) == m.subscription.as_ref() => {
                let _ = implements;
                let mut s = Subscription::new(t.name.clone());
                for f in fields {
                    let mut sf = SubscriptionField::new(f.name.clone(), type_ref(&f.ty), |_| {
                        SubscriptionFieldFuture::new(async {
                            Ok(futures_util::stream::empty::<async_graphql::Result<FieldValue>>())
                        })
                    });
                    for a in &f.args {
                        sf = sf.argument(input_value(a));
                    }
                    if let Some(d) = &f.desc {
                        sf = sf.description(d.clone());
                    }
                    if let Some(r) = &f.dep {
                        sf = sf.deprecation(r.as_deref());
                    }
                    s = s.field(sf);
                }
                if let Some(d) = &t.desc {
                    s = s.description(d.clone());
                }
                b = b.register(s);
            }
            IKind::Object { fields, implements } => {
                let mut ob = Object::new(t.name.clone());
                for i in implements {
                    ob = ob.implement(i.clone());
                }
                for f in fields {
                    let mut fd = Field::new(f.name.clone(), type_ref(&f.ty), |_| FieldFuture::from_value(None));
                    for a in &f.args {
                        fd = fd.argument(input_value(a));
                    }
                    if let Some(d) = &f.desc {
                        fd = fd.description(d.clone());
                    }
                    if let Some(r) = &f.dep {
                        fd = fd.deprecation(r.as_deref());
                    }
                    ob = ob.field(fd);
                }
                if let Some(d) = &t.desc {
                    ob = ob.description(d.clone());
                }
                b = b.register(ob);
            }
            IKind::Interface { fields, implements } => {
                let mut it = Interface::new(t.name.clone());
                for i in implements {
                    it = it.implement(i.clone());
                }
                for f in fields {
                    let mut fd = InterfaceField::new(f.name.clone(), type_ref(&f.ty));
                    for a in &f.args {
                        fd = fd.argument(input_value(a));
                    }
                    if let Some(d) = &f.desc {
                        fd = fd.description(d.clone());
                    }
                    if let Some(r) = &f.dep {
                        fd = fd.deprecation(r.as_deref());
                    }
                    it = it.field(fd);
                }
                if let Some(d) = &t.desc {
                    it = it.description(d.clone());
                }
                b = b.register(it);
            }
            IKind::Union { members } => {
                let mut u = Union::new(t.name.clone());
                for x in members {
                    u = u.possible_type(x.clone());
                }
                if let Some(d) = &t.desc {
                    u = u.description(d.clone());
                }
                b = b.register(u);
            }
            IKind::Input { fields, oneof } => {
                let mut io = InputObject::new(t.name.clone());
                for f in fields {
                    io = io.field(input_value(f));
                }
                if *oneof {
                    io = io.oneof();
                }
                if let Some(d) = &t.desc {
                    io = io.description(d.clone());
                }
                b = b.register(io);
            }
        }
    }
    b
}
