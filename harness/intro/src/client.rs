//! The client side of introspection: rebuild a schema model from the JSON the
//! server answered (the way graphql-js `buildClientSchema` does) and report
//! every way in which that JSON is not a self-consistent schema description
//! (monitor I1).

use std::collections::{BTreeMap, BTreeSet};

use serde_json::Value as J;
use vh_model::Ty;

use crate::im::*;

#[derive(Default, Debug)]
pub struct Rebuilt {
    pub model: IModel,
    /// I1 findings: each line names the place and what is inconsistent.
    pub errors: Vec<String>,
    /// type references decoded and resolved
    pub refs_checked: u64,
    /// INTERFACE entries whose `interfaces` is null (read as the empty list)
    pub interface_interfaces_null: u64,
    /// deepest wrapper chain seen (levels incl. the named type)
    pub max_chain: usize,
    /// type references cut off by the depth of the query's `ofType` nesting
    pub truncated_refs: u64,
    pub directives: Vec<String>,
    /// argument names of every listed directive
    pub directive_args: BTreeMap<String, Vec<String>>,
}

const NAMED_KINDS: [&str; 6] = ["SCALAR", "OBJECT", "INTERFACE", "UNION", "ENUM", "INPUT_OBJECT"];
const OUTPUT_KINDS: [&str; 5] = ["SCALAR", "OBJECT", "INTERFACE", "UNION", "ENUM"];
const INPUT_KINDS: [&str; 3] = ["SCALAR", "ENUM", "INPUT_OBJECT"];

struct Cx<'a> {
    kinds: BTreeMap<&'a str, &'a str>,
    out: Rebuilt,
}

impl<'a> Cx<'a> {
    fn err(&mut self, s: String) {
        self.out.errors.push(s);
    }

    /// Decode a `TypeRef` selection. `allowed` = kinds the named type may have
    /// at this position.
    fn type_ref(&mut self, at: &str, j: &J, allowed: &[&str]) -> Option<Ty> {
        let mut chain: Vec<&str> = vec![];
        let mut cur = j;
        let mut levels = 0usize;
        let named: String;
        loop {
            levels += 1;
            if !cur.is_object() {
                self.err(format!("{at}: type reference is {cur} instead of an object"));
                return None;
            }
            let kind = match cur["kind"].as_str() {
                Some(k) => k,
                None => {
                    self.err(format!("{at}: type reference without kind: {cur}"));
                    return None;
                }
            };
            match kind {
                "NON_NULL" | "LIST" => {
                    if !cur["name"].is_null() {
                        self.err(format!("{at}: {kind} wrapper carries a name {}", cur["name"]));
                    }
                    if kind == "NON_NULL" && chain.last() == Some(&"NON_NULL") {
                        self.err(format!("{at}: NON_NULL directly wraps NON_NULL"));
                    }
                    chain.push(if kind == "LIST" { "LIST" } else { "NON_NULL" });
                    match cur.get("ofType") {
                        None => {
                            // the query's ofType nesting ended here
                            self.out.truncated_refs += 1;
                            return None;
                        }
                        Some(J::Null) => {
                            self.err(format!("{at}: {kind} wrapper with ofType null"));
                            return None;
                        }
                        Some(inner) => cur = inner,
                    }
                }
                k if NAMED_KINDS.contains(&k) => {
                    let Some(n) = cur["name"].as_str() else {
                        self.err(format!("{at}: named type reference of kind {k} without a name"));
                        return None;
                    };
                    if let Some(of) = cur.get("ofType") {
                        if !of.is_null() {
                            self.err(format!("{at}: named type {n} carries ofType {of}"));
                        }
                    }
                    match self.kinds.get(n) {
                        None => self.err(format!("{at}: refers to type {n} which __schema.types does not list")),
                        Some(dk) if *dk != k => {
                            self.err(format!("{at}: refers to {n} as {k}, __schema.types lists it as {dk}"))
                        }
                        _ => {}
                    }
                    if !allowed.contains(&k) {
                        self.err(format!("{at}: type {n} of kind {k} is not allowed at this position"));
                    }
                    named = n.to_string();
                    break;
                }
                other => {
                    self.err(format!("{at}: unknown type kind {other:?}"));
                    return None;
                }
            }
        }
        self.out.refs_checked += 1;
        self.out.max_chain = self.out.max_chain.max(levels);
        let mut t = Ty::Named(named);
        for w in chain.iter().rev() {
            t = match *w {
                "LIST" => Ty::List(Box::new(t)),
                _ => Ty::NonNull(Box::new(t)),
            };
        }
        Some(t)
    }

    fn description(&mut self, at: &str, j: &J) -> Option<String> {
        match &j["description"] {
            J::Null => None,
            J::String(s) => Some(s.clone()),
            other => {
                self.err(format!("{at}: description is {other}"));
                None
            }
        }
    }

    fn deprecation(&mut self, at: &str, j: &J, optional: bool) -> Dep {
        let reason = match &j["deprecationReason"] {
            J::Null => None,
            J::String(s) => Some(s.clone()),
            other => {
                self.err(format!("{at}: deprecationReason is {other}"));
                None
            }
        };
        match j.get("isDeprecated") {
            Some(J::Bool(true)) => Some(reason),
            Some(J::Bool(false)) => {
                if let Some(r) = reason {
                    self.err(format!("{at}: isDeprecated is false but deprecationReason is {r:?}"));
                }
                None
            }
            None if optional => None,
            other => {
                self.err(format!("{at}: isDeprecated is {other:?} instead of a boolean"));
                None
            }
        }
    }

    fn input_values(&mut self, at: &str, what: &str, j: &J, legacy: bool) -> Vec<IArg> {
        let Some(list) = j.as_array() else {
            self.err(format!("{at}: {what} is {j} instead of a list"));
            return vec![];
        };
        let mut out = vec![];
        let mut names = BTreeSet::new();
        for a in list {
            let Some(n) = a["name"].as_str() else {
                self.err(format!("{at}: {what} entry without name"));
                continue;
            };
            let p = format!("{at}({n})");
            if !names.insert(n.to_string()) {
                self.err(format!("{p}: listed twice"));
            }
            let ty = self.type_ref(&p, &a["type"], &INPUT_KINDS);
            let default = match &a["defaultValue"] {
                J::Null => None,
                J::String(s) => match crate::value::parse_value(s) {
                    Ok(v) => Some(v),
                    Err(e) => {
                        self.err(format!("{p}: defaultValue {s:?} is not a GraphQL value ({e})"));
                        None
                    }
                },
                other => {
                    self.err(format!("{p}: defaultValue is {other} instead of a string"));
                    None
                }
            };
            let desc = self.description(&p, a);
            let dep = self.deprecation(&p, a, legacy);
            if let Some(ty) = ty {
                out.push(IArg { name: n.to_string(), ty, default, desc, dep });
            }
        }
        out
    }

    fn fields(&mut self, tn: &str, j: &J, legacy: bool) -> Vec<IField> {
        let Some(list) = j.as_array() else {
            self.err(format!("{tn}: fields is {j} instead of a list"));
            return vec![];
        };
        let mut out = vec![];
        let mut names = BTreeSet::new();
        for f in list {
            let Some(n) = f["name"].as_str() else {
                self.err(format!("{tn}: field entry without name"));
                continue;
            };
            let p = format!("{tn}.{n}");
            if !names.insert(n.to_string()) {
                self.err(format!("{p}: listed twice"));
            }
            let ty = self.type_ref(&p, &f["type"], &OUTPUT_KINDS);
            let args = self.input_values(&p, "args", &f["args"], legacy);
            let desc = self.description(&p, f);
            let dep = self.deprecation(&p, f, false);
            if let Some(ty) = ty {
                out.push(IField { name: n.to_string(), args, ty, desc, dep });
            }
        }
        out
    }

    fn named_list(&mut self, at: &str, what: &str, j: &J, kind: &str) -> Vec<String> {
        let Some(list) = j.as_array() else {
            self.err(format!("{at}: {what} is {j} instead of a list"));
            return vec![];
        };
        let mut out = vec![];
        for x in list {
            match self.type_ref(&format!("{at} {what}"), x, &[kind]) {
                Some(Ty::Named(n)) => {
                    if out.contains(&n) {
                        self.err(format!("{at}: {what} lists {n} twice"));
                    }
                    out.push(n)
                }
                Some(other) => self.err(format!("{at}: {what} lists the wrapped type {other}")),
                None => {}
            }
        }
        out
    }

    fn must_be_null(&mut self, tn: &str, kind: &str, t: &J, keys: &[&str]) {
        for k in keys {
            if let Some(v) = t.get(*k) {
                if !v.is_null() {
                    let shown = vh_core::run::truncate(&v.to_string(), 80);
                    self.err(format!("{tn}: {kind} type answers {k} = {shown} (must be null for this kind)"));
                }
            }
        }
    }
}

/// Rebuild from `data.__schema` of a standard (or legacy) introspection answer.
pub fn rebuild(schema: &J, legacy: bool) -> Rebuilt {
    let mut cx = Cx { kinds: BTreeMap::new(), out: Rebuilt::default() };
    let Some(types) = schema["types"].as_array() else {
        cx.err(format!("__schema.types is {} instead of a list", schema["types"]));
        return cx.out;
    };
    for t in types {
        match (t["name"].as_str(), t["kind"].as_str()) {
            (Some(n), Some(k)) => {
                if !NAMED_KINDS.contains(&k) {
                    cx.err(format!("{n}: __schema.types lists kind {k}"));
                }
                if cx.kinds.insert(n, k).is_some() {
                    cx.err(format!("{n}: listed twice in __schema.types"));
                }
            }
            _ => cx.err(format!(
                "__schema.types entry without name/kind: {}",
                vh_core::run::truncate(&t.to_string(), 120)
            )),
        }
    }
    let mut model = IModel::default();
    for t in types {
        let (Some(n), Some(k)) = (t["name"].as_str(), t["kind"].as_str()) else { continue };
        let desc = cx.description(n, t);
        let kind = match k {
            "SCALAR" => {
                cx.must_be_null(n, k, t, &["fields", "interfaces", "possibleTypes", "enumValues", "inputFields"]);
                let specified_by = match t.get("specifiedByURL") {
                    Some(J::String(s)) => Some(s.clone()),
                    Some(J::Null) | None => None,
                    Some(other) => {
                        cx.err(format!("{n}: specifiedByURL is {other}"));
                        None
                    }
                };
                IKind::Scalar { specified_by }
            }
            "OBJECT" => {
                cx.must_be_null(n, k, t, &["possibleTypes", "enumValues", "inputFields", "specifiedByURL"]);
                let fields = cx.fields(n, &t["fields"], legacy);
                let implements = cx.named_list(n, "interfaces", &t["interfaces"], "INTERFACE");
                IKind::Object { fields, implements }
            }
            "INTERFACE" => {
                cx.must_be_null(n, k, t, &["enumValues", "inputFields", "specifiedByURL"]);
                let fields = cx.fields(n, &t["fields"], legacy);
                let implements = if t["interfaces"].is_null() {
                    cx.out.interface_interfaces_null += 1;
                    vec![]
                } else {
                    cx.named_list(n, "interfaces", &t["interfaces"], "INTERFACE")
                };
                // possibleTypes is decoded below, once every object is known
                IKind::Interface { fields, implements }
            }
            "UNION" => {
                cx.must_be_null(n, k, t, &["fields", "interfaces", "enumValues", "inputFields", "specifiedByURL"]);
                let members = cx.named_list(n, "possibleTypes", &t["possibleTypes"], "OBJECT");
                IKind::Union { members }
            }
            "ENUM" => {
                cx.must_be_null(n, k, t, &["fields", "interfaces", "possibleTypes", "inputFields", "specifiedByURL"]);
                let mut values = vec![];
                match t["enumValues"].as_array() {
                    None => cx.err(format!("{n}: enumValues is {} instead of a list", t["enumValues"])),
                    Some(list) => {
                        let mut names = BTreeSet::new();
                        for v in list {
                            let Some(vn) = v["name"].as_str() else {
                                cx.err(format!("{n}: enum value without name"));
                                continue;
                            };
                            let p = format!("{n}.{vn}");
                            if !names.insert(vn.to_string()) {
                                cx.err(format!("{p}: listed twice"));
                            }
                            let desc = cx.description(&p, v);
                            let dep = cx.deprecation(&p, v, false);
                            values.push(IEnumVal { name: vn.to_string(), desc, dep });
                        }
                    }
                }
                IKind::Enum { values }
            }
            "INPUT_OBJECT" => {
                cx.must_be_null(n, k, t, &["fields", "interfaces", "possibleTypes", "enumValues", "specifiedByURL"]);
                let fields = cx.input_values(n, "inputFields", &t["inputFields"], legacy);
                let oneof = match t.get("isOneOf") {
                    Some(J::Bool(b)) => *b,
                    Some(J::Null) | None => false,
                    Some(other) => {
                        cx.err(format!("{n}: isOneOf is {other}"));
                        false
                    }
                };
                IKind::Input { fields, oneof }
            }
            _ => continue,
        };
        model.add(IType { name: n.to_string(), desc, kind });
    }
    // possibleTypes of interfaces against the objects' own `interfaces`
    for t in types {
        let (Some(n), Some("INTERFACE")) = (t["name"].as_str(), t["kind"].as_str()) else { continue };
        let listed = cx.named_list(n, "possibleTypes", &t["possibleTypes"], "OBJECT");
        let mut want = model.implementors(n);
        let mut got = listed.clone();
        want.sort();
        got.sort();
        if want != got {
            cx.err(format!(
                "{n}: possibleTypes lists {got:?} but the objects whose `interfaces` name {n} are {want:?}"
            ));
        }
    }
    // an implementor of B also declares what B declares
    for t in model.types.values() {
        let mine: Vec<String> = model.implements_of(&t.name).to_vec();
        for i in &mine {
            for up in model.implements_of(i) {
                if !mine.contains(up) && up != &t.name {
                    cx.err(format!(
                        "{}: lists interface {i}, and {i} lists {up}, but {} does not list {up}",
                        t.name, t.name
                    ));
                }
            }
        }
    }
    // root operation types
    for (key, required) in [("queryType", true), ("mutationType", false), ("subscriptionType", false)] {
        let r = &schema[key];
        if r.is_null() {
            if required {
                cx.err("queryType is null".to_string());
            }
            continue;
        }
        let Some(n) = r["name"].as_str() else {
            cx.err(format!("{key}: no name in {r}"));
            continue;
        };
        match cx.kinds.get(n) {
            None => cx.err(format!("{key}: refers to type {n} which __schema.types does not list")),
            Some(k) if *k != "OBJECT" => cx.err(format!("{key}: {n} is listed as {k}, a root type must be an OBJECT")),
            _ => {}
        }
        if let Some(k) = r["kind"].as_str() {
            if k != "OBJECT" {
                cx.err(format!("{key}: refers to {n} as {k}"));
            }
        }
        cx.out.refs_checked += 1;
        match key {
            "queryType" => model.query = n.to_string(),
            "mutationType" => model.mutation = Some(n.to_string()),
            _ => model.subscription = Some(n.to_string()),
        }
    }
    // directives
    match schema["directives"].as_array() {
        None => cx.err(format!("__schema.directives is {} instead of a list", schema["directives"])),
        Some(ds) => {
            let mut names = BTreeSet::new();
            for d in ds {
                let Some(n) = d["name"].as_str() else {
                    cx.err("directive without name".to_string());
                    continue;
                };
                if !names.insert(n.to_string()) {
                    cx.err(format!("@{n}: listed twice in __schema.directives"));
                }
                cx.out.directives.push(n.to_string());
                let p = format!("@{n}");
                match d["locations"].as_array() {
                    None => cx.err(format!("{p}: locations is {}", d["locations"])),
                    Some(ls) => {
                        if ls.is_empty() {
                            cx.err(format!("{p}: no locations"));
                        }
                        for l in ls {
                            match l.as_str() {
                                Some(s) if vh_r2::DIRECTIVE_LOCATIONS.contains(&s) => {}
                                _ => cx.err(format!("{p}: unknown location {l}")),
                            }
                        }
                    }
                }
                let args = cx.input_values(&p, "args", &d["args"], legacy);
                cx.out.directive_args.insert(n.to_string(), args.into_iter().map(|a| a.name).collect());
            }
        }
    }
    cx.out.model = model;
    cx.out
}

/// The entry of `__schema.types` for `name`.
pub fn entry<'a>(schema: &'a J, name: &str) -> Option<&'a J> {
    schema["types"].as_array()?.iter().find(|t| t["name"].as_str() == Some(name))
}
