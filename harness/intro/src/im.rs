//! The monitor's own description of a type system *as introspection and SDL
//! can express it*: kinds, fields, arguments, types, default values as
//! values, enum values, union members, implemented interfaces, deprecations
//! with reasons, descriptions, `specifiedByURL`, `@oneOf`, root operation
//! types. Three producers fill it: the SOURCE the schema was built from
//! (generator / hand model), the client rebuild from the introspection JSON
//! (`client.rs`) and the reading of the exported SDL (`sdlm.rs`). `diff`
//! compares two of them element by element.

use std::collections::BTreeMap;

use serde_json::{Value as J, json};
use vh_model::{Ty, Val};

/// `None` = not deprecated; `Some(reason)` = deprecated with optional reason.
pub type Dep = Option<Option<String>>;

#[derive(Clone, Debug, PartialEq)]
pub struct IArg {
    pub name: String,
    pub ty: Ty,
    pub default: Option<Val>,
    pub desc: Option<String>,
    pub dep: Dep,
}

#[derive(Clone, Debug, PartialEq)]
pub struct IField {
    pub name: String,
    pub args: Vec<IArg>,
    pub ty: Ty,
    pub desc: Option<String>,
    pub dep: Dep,
}

#[derive(Clone, Debug, PartialEq)]
pub struct IEnumVal {
    pub name: String,
    pub desc: Option<String>,
    pub dep: Dep,
}

#[derive(Clone, Debug, PartialEq)]
pub enum IKind {
    Scalar { specified_by: Option<String> },
    Object { fields: Vec<IField>, implements: Vec<String> },
    Interface { fields: Vec<IField>, implements: Vec<String> },
    Union { members: Vec<String> },
    Enum { values: Vec<IEnumVal> },
    Input { fields: Vec<IArg>, oneof: bool },
}

impl IKind {
    pub fn word(&self) -> &'static str {
        match self {
            IKind::Scalar { .. } => "SCALAR",
            IKind::Object { .. } => "OBJECT",
            IKind::Interface { .. } => "INTERFACE",
            IKind::Union { .. } => "UNION",
            IKind::Enum { .. } => "ENUM",
            IKind::Input { .. } => "INPUT_OBJECT",
        }
    }
}

#[derive(Clone, Debug, PartialEq)]
pub struct IType {
    pub name: String,
    pub desc: Option<String>,
    pub kind: IKind,
}

#[derive(Clone, Debug, Default, PartialEq)]
pub struct IModel {
    pub types: BTreeMap<String, IType>,
    pub query: String,
    pub mutation: Option<String>,
    pub subscription: Option<String>,
}

pub fn is_builtin_scalar(n: &str) -> bool {
    matches!(n, "Int" | "Float" | "String" | "Boolean" | "ID")
}

impl IModel {
    pub fn add(&mut self, t: IType) {
        self.types.insert(t.name.clone(), t);
    }

    pub fn fields_of(&self, name: &str) -> &[IField] {
        match self.types.get(name).map(|t| &t.kind) {
            Some(IKind::Object { fields, .. }) | Some(IKind::Interface { fields, .. }) => fields,
            _ => &[],
        }
    }

    pub fn implements_of(&self, name: &str) -> &[String] {
        match self.types.get(name).map(|t| &t.kind) {
            Some(IKind::Object { implements, .. }) | Some(IKind::Interface { implements, .. }) => implements,
            _ => &[],
        }
    }

    /// Objects that declare `iface` (what `possibleTypes` must list).
    pub fn implementors(&self, iface: &str) -> Vec<String> {
        self.types
            .values()
            .filter(|t| matches!(&t.kind, IKind::Object { implements, .. } if implements.iter().any(|i| i == iface)))
            .map(|t| t.name.clone())
            .collect()
    }

    /// Feature tags of the model (for evidence: which constructs were seen).
    pub fn features(&self) -> Vec<&'static str> {
        let mut f = vec![];
        let mut push = |s: &'static str| {
            if !f.contains(&s) {
                f.push(s)
            }
        };
        if self.mutation.is_some() {
            push("mutation_root");
        }
        if self.subscription.is_some() {
            push("subscription_root");
        }
        for t in self.types.values() {
            if t.desc.is_some() {
                push("type_description");
            }
            match &t.kind {
                IKind::Scalar { specified_by } => {
                    if !is_builtin_scalar(&t.name) {
                        push("custom_scalar");
                    }
                    if specified_by.is_some() {
                        push("specified_by_url");
                    }
                }
                IKind::Object { fields, implements } | IKind::Interface { fields, implements } => {
                    let is_if = matches!(t.kind, IKind::Interface { .. });
                    if is_if {
                        push("interface");
                        if !implements.is_empty() {
                            push("interface_implements_interface");
                        }
                        if implements.len() > 1 {
                            push("interface_implements_two");
                        }
                    } else if !implements.is_empty() {
                        push("object_implements");
                    }
                    for fd in fields {
                        if fd.dep.is_some() {
                            push("deprecated_field");
                        }
                        if matches!(fd.dep, Some(None)) {
                            push("deprecated_without_reason");
                        }
                        if fd.desc.is_some() {
                            push("field_description");
                        }
                        if fd.ty.list_depth() > 1 {
                            push("nested_list_type");
                        }
                        for a in &fd.args {
                            push("argument");
                            if a.default.is_some() {
                                push("argument_default");
                            }
                            if a.dep.is_some() {
                                push("deprecated_argument");
                            }
                            if a.desc.is_some() {
                                push("argument_description");
                            }
                            if let Some(Val::Obj(_)) = &a.default {
                                push("object_default");
                            }
                            if let Some(Val::List(_)) = &a.default {
                                push("list_default");
                            }
                            if let Some(Val::Null) = &a.default {
                                push("null_default");
                            }
                        }
                    }
                }
                IKind::Union { .. } => push("union"),
                IKind::Enum { values } => {
                    push("enum");
                    if values.iter().any(|v| v.dep.is_some()) {
                        push("deprecated_enum_value");
                    }
                    if values.iter().any(|v| v.desc.is_some()) {
                        push("enum_value_description");
                    }
                }
                IKind::Input { fields, oneof } => {
                    push("input_object");
                    if *oneof {
                        push("oneof_input_object");
                    }
                    if fields.iter().any(|f| f.default.is_some()) {
                        push("input_field_default");
                    }
                    if fields.iter().any(|f| f.dep.is_some()) {
                        push("deprecated_input_field");
                    }
                }
            }
        }
        f
    }

    /// A JSON rendering that is enough to rebuild the model (replay files).
    pub fn to_json(&self) -> J {
        fn dep(d: &Dep) -> J {
            match d {
                None => J::Null,
                Some(r) => json!({"reason": r}),
            }
        }
        fn arg(a: &IArg) -> J {
            json!({"name": a.name, "type": a.ty.to_string(), "default": a.default.as_ref().map(|d| d.gql()),
                   "description": a.desc, "deprecated": dep(&a.dep)})
        }
        fn field(f: &IField) -> J {
            json!({"name": f.name, "type": f.ty.to_string(), "args": f.args.iter().map(arg).collect::<Vec<_>>(),
                   "description": f.desc, "deprecated": dep(&f.dep)})
        }
        let types: Vec<J> = self
            .types
            .values()
            .filter(|t| !is_builtin_scalar(&t.name))
            .map(|t| {
                let body = match &t.kind {
                    IKind::Scalar { specified_by } => json!({"specifiedByURL": specified_by}),
                    IKind::Object { fields, implements } | IKind::Interface { fields, implements } => {
                        json!({"implements": implements, "fields": fields.iter().map(field).collect::<Vec<_>>()})
                    }
                    IKind::Union { members } => json!({"members": members}),
                    IKind::Enum { values } => json!({"values": values.iter().map(|v| json!({"name": v.name,
                        "description": v.desc, "deprecated": dep(&v.dep)})).collect::<Vec<_>>()}),
                    IKind::Input { fields, oneof } => {
                        json!({"oneOf": oneof, "fields": fields.iter().map(arg).collect::<Vec<_>>()})
                    }
                };
                json!({"kind": t.kind.word(), "name": t.name, "description": t.desc, "def": body})
            })
            .collect();
        json!({"query": self.query, "mutation": self.mutation, "subscription": self.subscription, "types": types})
    }

    /// Inverse of `to_json`.
    pub fn from_json(j: &J) -> Result<IModel, String> {
        fn s(j: &J) -> Option<String> {
            j.as_str().map(|x| x.to_string())
        }
        fn dep(j: &J) -> Dep {
            if j.is_null() { None } else { Some(s(&j["reason"])) }
        }
        fn arg(j: &J) -> Result<IArg, String> {
            Ok(IArg {
                name: s(&j["name"]).ok_or("arg name")?,
                ty: Ty::parse(j["type"].as_str().ok_or("arg type")?),
                default: match j["default"].as_str() {
                    None => None,
                    Some(t) => Some(crate::value::parse_value(t)?),
                },
                desc: s(&j["description"]),
                dep: dep(&j["deprecated"]),
            })
        }
        fn field(j: &J) -> Result<IField, String> {
            Ok(IField {
                name: s(&j["name"]).ok_or("field name")?,
                ty: Ty::parse(j["type"].as_str().ok_or("field type")?),
                args: j["args"].as_array().map(|a| a.iter().map(arg).collect::<Result<Vec<_>, _>>()).unwrap_or(Ok(vec![]))?,
                desc: s(&j["description"]),
                dep: dep(&j["deprecated"]),
            })
        }
        fn names(j: &J) -> Vec<String> {
            j.as_array().map(|a| a.iter().filter_map(s).collect()).unwrap_or_default()
        }
        let mut m = with_builtins(j["query"].as_str().ok_or("query")?);
        m.mutation = s(&j["mutation"]);
        m.subscription = s(&j["subscription"]);
        for t in j["types"].as_array().ok_or("types")? {
            let d = &t["def"];
            let kind = match t["kind"].as_str().ok_or("kind")? {
                "SCALAR" => IKind::Scalar { specified_by: s(&d["specifiedByURL"]) },
                "OBJECT" => IKind::Object {
                    fields: d["fields"].as_array().ok_or("fields")?.iter().map(field).collect::<Result<_, _>>()?,
                    implements: names(&d["implements"]),
                },
                "INTERFACE" => IKind::Interface {
                    fields: d["fields"].as_array().ok_or("fields")?.iter().map(field).collect::<Result<_, _>>()?,
                    implements: names(&d["implements"]),
                },
                "UNION" => IKind::Union { members: names(&d["members"]) },
                "ENUM" => IKind::Enum {
                    values: d["values"]
                        .as_array()
                        .ok_or("values")?
                        .iter()
                        .map(|v| IEnumVal {
                            name: s(&v["name"]).unwrap_or_default(),
                            desc: s(&v["description"]),
                            dep: dep(&v["deprecated"]),
                        })
                        .collect(),
                },
                "INPUT_OBJECT" => IKind::Input {
                    fields: d["fields"].as_array().ok_or("fields")?.iter().map(arg).collect::<Result<_, _>>()?,
                    oneof: d["oneOf"].as_bool().unwrap_or(false),
                },
                other => return Err(format!("kind {other}")),
            };
            m.add(IType { name: s(&t["name"]).ok_or("name")?, desc: s(&t["description"]), kind });
        }
        Ok(m)
    }
}

pub fn with_builtins(query: &str) -> IModel {
    let mut m = IModel { query: query.to_string(), ..Default::default() };
    for n in ["Int", "Float", "String", "Boolean", "ID"] {
        m.add(IType { name: n.into(), desc: None, kind: IKind::Scalar { specified_by: None } });
    }
    m
}

// ------------------------------------------------------------------- diffing

/// What a comparison looks at.
#[derive(Clone, Copy, Debug)]
pub struct DiffOpts {
    /// compare description texts
    pub descriptions: bool,
    /// The left side cannot express `specifiedByURL` / is allowed to omit it.
    pub specified_by: bool,
    /// `b` may contain types `a` lacks (e.g. types the server adds itself).
    pub b_may_have_extra_types: bool,
}

impl Default for DiffOpts {
    fn default() -> Self {
        DiffOpts { descriptions: true, specified_by: true, b_may_have_extra_types: false }
    }
}

fn opt<T: std::fmt::Debug>(x: &Option<T>) -> String {
    match x {
        None => "<none>".into(),
        Some(v) => format!("{v:?}"),
    }
}

fn dep_text(d: &Dep) -> String {
    match d {
        None => "not deprecated".into(),
        Some(None) => "deprecated, no reason".into(),
        Some(Some(r)) => format!("deprecated, reason {r:?}"),
    }
}

fn by_name<'a, T>(
    xs: &'a [T],
    name: impl Fn(&'a T) -> &'a str,
    path: &str,
    what: &str,
    side: &str,
    out: &mut Vec<String>,
) -> BTreeMap<&'a str, &'a T> {
    let mut m: BTreeMap<&str, &T> = BTreeMap::new();
    for x in xs {
        let n: &'a str = name(x);
        if m.insert(n, x).is_some() {
            out.push(format!("{path}: {what} {n} listed twice in {side}"));
        }
    }
    m
}

fn diff_args(path: &str, what: &str, a: &[IArg], b: &[IArg], la: &str, lb: &str, o: &DiffOpts, out: &mut Vec<String>) {
    let ma = by_name(a, |x| &x.name, path, what, la, out);
    let mb = by_name(b, |x| &x.name, path, what, lb, out);
    for (n, x) in &ma {
        let p = format!("{path}({n})");
        let Some(y) = mb.get(n) else {
            out.push(format!("{p}: {what} in {la}, missing in {lb}"));
            continue;
        };
        if x.ty != y.ty {
            out.push(format!("{p}: type {} in {la}, {} in {lb}", x.ty, y.ty));
        }
        let (dx, dy) = (x.default.as_ref().map(|v| v.canon()), y.default.as_ref().map(|v| v.canon()));
        if dx != dy {
            out.push(format!(
                "{p}: default value {} in {la}, {} in {lb}",
                opt(&x.default.as_ref().map(|v| v.gql())),
                opt(&y.default.as_ref().map(|v| v.gql()))
            ));
        }
        if o.descriptions && x.desc != y.desc {
            out.push(format!("{p}: description {} in {la}, {} in {lb}", opt(&x.desc), opt(&y.desc)));
        }
        if x.dep != y.dep {
            out.push(format!("{p}: {} in {la}, {} in {lb}", dep_text(&x.dep), dep_text(&y.dep)));
        }
    }
    for n in mb.keys() {
        if !ma.contains_key(n) {
            out.push(format!("{path}({n}): {what} in {lb}, missing in {la}"));
        }
    }
}

fn diff_fields(tn: &str, a: &[IField], b: &[IField], la: &str, lb: &str, o: &DiffOpts, out: &mut Vec<String>) {
    let ma = by_name(a, |x| &x.name, tn, "field", la, out);
    let mb = by_name(b, |x| &x.name, tn, "field", lb, out);
    for (n, x) in &ma {
        let p = format!("{tn}.{n}");
        let Some(y) = mb.get(n) else {
            out.push(format!("{p}: field in {la}, missing in {lb}"));
            continue;
        };
        if x.ty != y.ty {
            out.push(format!("{p}: type {} in {la}, {} in {lb}", x.ty, y.ty));
        }
        if o.descriptions && x.desc != y.desc {
            out.push(format!("{p}: description {} in {la}, {} in {lb}", opt(&x.desc), opt(&y.desc)));
        }
        if x.dep != y.dep {
            out.push(format!("{p}: {} in {la}, {} in {lb}", dep_text(&x.dep), dep_text(&y.dep)));
        }
        diff_args(&p, "argument", &x.args, &y.args, la, lb, o, out);
    }
    for n in mb.keys() {
        if !ma.contains_key(n) {
            out.push(format!("{tn}.{n}: field in {lb}, missing in {la}"));
        }
    }
}

fn diff_names(path: &str, what: &str, a: &[String], b: &[String], la: &str, lb: &str, out: &mut Vec<String>) {
    let mut sa: Vec<&String> = a.iter().collect();
    let mut sb: Vec<&String> = b.iter().collect();
    sa.sort();
    sb.sort();
    for w in sa.windows(2) {
        if w[0] == w[1] {
            out.push(format!("{path}: {what} {} listed twice in {la}", w[0]));
        }
    }
    for w in sb.windows(2) {
        if w[0] == w[1] {
            out.push(format!("{path}: {what} {} listed twice in {lb}", w[0]));
        }
    }
    sa.dedup();
    sb.dedup();
    if sa != sb {
        out.push(format!("{path}: {what} {sa:?} in {la}, {sb:?} in {lb}"));
    }
}

/// Element-by-element differences between two models. Introspection's own
/// `__*` types and built-in scalars are outside the comparison (which of them
/// are listed is the server's choice).
pub fn diff(a: &IModel, la: &str, b: &IModel, lb: &str, o: &DiffOpts) -> Vec<String> {
    let mut out = vec![];
    if a.query != b.query {
        out.push(format!("query root {} in {la}, {} in {lb}", a.query, b.query));
    }
    if a.mutation != b.mutation {
        out.push(format!("mutation root {} in {la}, {} in {lb}", opt(&a.mutation), opt(&b.mutation)));
    }
    if a.subscription != b.subscription {
        out.push(format!("subscription root {} in {la}, {} in {lb}", opt(&a.subscription), opt(&b.subscription)));
    }
    let skip = |n: &str| n.starts_with("__") || is_builtin_scalar(n);
    for (n, x) in &a.types {
        if skip(n) {
            continue;
        }
        let Some(y) = b.types.get(n) else {
            out.push(format!("{n}: {} type in {la}, missing in {lb}", x.kind.word()));
            continue;
        };
        if x.kind.word() != y.kind.word() {
            out.push(format!("{n}: kind {} in {la}, {} in {lb}", x.kind.word(), y.kind.word()));
            continue;
        }
        if o.descriptions && x.desc != y.desc {
            out.push(format!("{n}: description {} in {la}, {} in {lb}", opt(&x.desc), opt(&y.desc)));
        }
        match (&x.kind, &y.kind) {
            (IKind::Scalar { specified_by: sa }, IKind::Scalar { specified_by: sb }) => {
                if o.specified_by && sa != sb {
                    out.push(format!("{n}: specifiedByURL {} in {la}, {} in {lb}", opt(sa), opt(sb)));
                }
            }
            (IKind::Object { fields: fa, implements: ia }, IKind::Object { fields: fb, implements: ib })
            | (IKind::Interface { fields: fa, implements: ia }, IKind::Interface { fields: fb, implements: ib }) => {
                diff_names(n, "implemented interfaces", ia, ib, la, lb, &mut out);
                diff_fields(n, fa, fb, la, lb, o, &mut out);
            }
            (IKind::Union { members: ma }, IKind::Union { members: mb }) => {
                diff_names(n, "union members", ma, mb, la, lb, &mut out);
            }
            (IKind::Enum { values: va }, IKind::Enum { values: vb }) => {
                let ma = by_name(va, |x| &x.name, n, "enum value", la, &mut out);
                let mb = by_name(vb, |x| &x.name, n, "enum value", lb, &mut out);
                for (vn, vx) in &ma {
                    let Some(vy) = mb.get(vn) else {
                        out.push(format!("{n}.{vn}: enum value in {la}, missing in {lb}"));
                        continue;
                    };
                    if o.descriptions && vx.desc != vy.desc {
                        out.push(format!("{n}.{vn}: description {} in {la}, {} in {lb}", opt(&vx.desc), opt(&vy.desc)));
                    }
                    if vx.dep != vy.dep {
                        out.push(format!("{n}.{vn}: {} in {la}, {} in {lb}", dep_text(&vx.dep), dep_text(&vy.dep)));
                    }
                }
                for vn in mb.keys() {
                    if !ma.contains_key(vn) {
                        out.push(format!("{n}.{vn}: enum value in {lb}, missing in {la}"));
                    }
                }
            }
            (IKind::Input { fields: fa, oneof: oa }, IKind::Input { fields: fb, oneof: ob }) => {
                if oa != ob {
                    out.push(format!("{n}: oneOf {oa} in {la}, {ob} in {lb}"));
                }
                diff_args(n, "input field", fa, fb, la, lb, o, &mut out);
            }
            _ => unreachable!(),
        }
    }
    if !o.b_may_have_extra_types {
        for (n, y) in &b.types {
            if !skip(n) && !a.types.contains_key(n) {
                out.push(format!("{n}: {} type in {lb}, missing in {la}", y.kind.word()));
            }
        }
    }
    out
}
