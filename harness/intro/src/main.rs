//! vh-intro: C18.
mod c18;
mod client;
mod tsgen;
mod im;
mod query;
mod sdlm;
mod value;
mod vis;
mod witness;

fn main() {
    let id = std::env::args().nth(1).unwrap_or_default();
    match id.as_str() {
        "C18" => c18::main(),
        other => {
            println!("INCONCLUSIVE property={other} reason=vh-intro has no check for this property");
            std::process::exit(2);
        }
    }
}
