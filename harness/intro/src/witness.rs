//! Pinned witnesses: minimal schemas on which the unchanged tree breaks the
//! property. Each runs the same monitors as the generated workload; its
//! observation is the sorted list of what the monitors report, so a different
//! wrong answer on the same witness has a different signature.

use std::collections::BTreeMap;

use async_graphql::Request;
use serde_json::json;
use vh_core::Run;

use crate::c18::{Problem, Stats, check_dynamic, check_static, sdl_opts, texts};
use crate::im::*;
use crate::vis::{Flags, Pred, VDir, Vm, With, arg, fld, names, p_admin, p_never};

pub struct Witness {
    pub id: &'static str,
    pub what: &'static str,
    pub run: fn(&mut Stats) -> Vec<Problem>,
}

pub const WITNESSES: [Witness; 5] = [
    Witness {
        id: "C18-W-dynamic-interface-implements-interface",
        what: "dynamic: interface A {x: Int} interface B implements A {x: Int} type O implements A & B {x: Int} type Query {b: B}",
        run: w_dynamic_interface_inheritance,
    },
    Witness {
        id: "C18-W-static-interface-of-interface",
        what: "static: #[derive(Interface)] enum Entity { Named(Named) } where Named is itself a derived interface over object Obj",
        run: static_inherit::run,
    },
    Witness {
        id: "C18-W-static-visible-element-of-hidden-type",
        what: "static: visible field / argument / input field whose type has #[graphql(visible = false)]",
        run: hidden_type::run,
    },
    Witness {
        id: "C18-W-static-interface-listed-in-one-pass",
        what: "static: interface Aaa implemented only by Deep; Deep reachable only as a possible type of interface Yonder, which is reachable only because User implements it",
        run: one_pass::run,
    },
    Witness {
        id: "C18-W-static-hidden-custom-directive",
        what: "static: type Query {ok: Int!} with Schema::directive of #[Directive(visible = false)] zz_never_mark, #[Directive(visible = \"is_admin\")] zz_admin_mark and whisper(#[graphql(visible = \"is_admin\")] zzAdminHush, low), introspected without and with the admin flag",
        run: hidden_directive::run,
    },
];

pub fn run_one(id: &str, st: &mut Stats) -> Option<Vec<Problem>> {
    WITNESSES.iter().find(|w| w.id == id).map(|w| (w.run)(st))
}

pub fn observation(ps: &[Problem]) -> String {
    let mut t = texts(ps);
    t.sort();
    t.dedup();
    t.join(" || ")
}

pub fn run_all(run: &Run) {
    for w in &WITNESSES {
        let mut st = Stats::default();
        let problems = (w.run)(&mut st);
        run.evals(st.requests);
        run.count("witness_runs", 1);
        run.seen("witness", w.id);
        if problems.is_empty() {
            run.note(&format!("witness {} ({}) is answered correctly", w.id, w.what));
            continue;
        }
        let obs = observation(&problems);
        run.violation(
            &format!("{}|{}", w.id, obs),
            &format!("witness {}: {}: {}", w.id, w.what, obs),
            json!({"flavour": "witness", "witness": w.id, "schema": w.what, "observed": texts(&problems)}),
        );
    }
}

// ------------------------------------------------------------------- dynamic

fn w_dynamic_interface_inheritance(st: &mut Stats) -> Vec<Problem> {
    let mut m = with_builtins("Query");
    m.add(IType { name: "A".into(), desc: None, kind: IKind::Interface { fields: vec![fld("x", "Int")], implements: vec![] } });
    m.add(IType { name: "B".into(), desc: None, kind: IKind::Interface { fields: vec![fld("x", "Int")], implements: names(&["A"]) } });
    m.add(IType { name: "O".into(), desc: None, kind: IKind::Object { fields: vec![fld("x", "Int")], implements: names(&["A", "B"]) } });
    m.add(IType { name: "Query".into(), desc: None, kind: IKind::Object { fields: vec![fld("b", "B")], implements: vec![] } });
    match check_dynamic(&m, false, st) {
        Ok(p) => p,
        Err(e) => vec![Problem { class: "build", text: format!("the witness schema does not build: {e}") }],
    }
}

// -------------------------------------------------------------------- static

fn vm(full: IModel, preds: &[(&str, Pred)]) -> Vm {
    let mut vis: BTreeMap<String, Pred> = BTreeMap::new();
    for (p, f) in preds {
        vis.insert(p.to_string(), *f);
    }
    Vm { full, vis, dirs: vec![] }
}

fn over_contexts(
    exec: &dyn Fn(Request) -> async_graphql::Response,
    sdl: Option<String>,
    vm: &Vm,
    contexts: &[u8],
    st: &mut Stats,
) -> Vec<Problem> {
    if let Err(e) = vm.check_naming() {
        return vec![Problem { class: "harness", text: format!("witness hand model breaks the naming rule: {e}") }];
    }
    let mut out = vec![];
    for (i, bits) in contexts.iter().enumerate() {
        let f = Flags::from_bits(*bits);
        let (ps, _) = check_static(exec, if i == contexts.len() - 1 { sdl.clone() } else { None }, vm, f, st);
        for mut p in ps {
            if contexts.len() > 1 {
                p.text = format!("[{}] {}", f.label(), p.text);
            }
            out.push(p);
        }
    }
    out
}

mod static_inherit {
    use async_graphql::*;

    use super::*;

    pub struct Obj;
    #[Object]
    impl Obj {
        async fn id(&self) -> i32 {
            0
        }
        async fn name(&self) -> String {
            String::new()
        }
    }
    #[derive(Interface)]
    #[graphql(field(name = "id", ty = "i32"), field(name = "name", ty = "String"))]
    pub enum Named {
        Obj(Obj),
    }
    #[derive(Interface)]
    #[graphql(field(name = "id", ty = "i32"))]
    pub enum Entity {
        Named(Named),
    }
    pub struct Query;
    #[Object]
    impl Query {
        async fn entity(&self) -> Option<Entity> {
            None
        }
        async fn named(&self) -> Option<Named> {
            None
        }
    }

    pub fn run(st: &mut Stats) -> Vec<Problem> {
        let schema = Schema::new(Query, EmptyMutation, EmptySubscription);
        let mut m = with_builtins("Query");
        m.add(IType { name: "Entity".into(), desc: None, kind: IKind::Interface { fields: vec![fld("id", "Int!")], implements: vec![] } });
        m.add(IType {
            name: "Named".into(),
            desc: None,
            kind: IKind::Interface { fields: vec![fld("id", "Int!"), fld("name", "String!")], implements: names(&["Entity"]) },
        });
        m.add(IType {
            name: "Obj".into(),
            desc: None,
            kind: IKind::Object { fields: vec![fld("id", "Int!"), fld("name", "String!")], implements: names(&["Named", "Entity"]) },
        });
        m.add(IType {
            name: "Query".into(),
            desc: None,
            kind: IKind::Object { fields: vec![fld("entity", "Entity"), fld("named", "Named")], implements: vec![] },
        });
        let exec = |r: Request| vh_core::vsched::block_on(schema.execute(r));
        over_contexts(&exec, Some(schema.sdl_with_options(sdl_opts())), &vm(m, &[]), &[0], st)
    }
}

mod hidden_type {
    use async_graphql::*;

    use super::*;

    fn is_admin(ctx: &Context<'_>) -> bool {
        ctx.data_opt::<crate::vis::Flags>().map(|f| f.admin).unwrap_or(false)
    }

    #[derive(SimpleObject)]
    #[graphql(visible = false)]
    pub struct ZzHidObj {
        a: i32,
    }
    #[derive(SimpleObject)]
    #[graphql(visible = "is_admin")]
    pub struct ZzAdminAudit {
        entries: i32,
    }
    #[derive(InputObject)]
    #[graphql(visible = false)]
    pub struct ZzHidInput {
        a: i32,
    }
    #[derive(Enum, Copy, Clone, Eq, PartialEq)]
    #[graphql(visible = false)]
    pub enum ZzHidEnum {
        A,
    }
    #[derive(InputObject)]
    pub struct Wrapper {
        ok: Option<i32>,
        inner: Option<ZzHidEnum>,
    }
    pub struct Query;
    #[Object]
    impl Query {
        async fn obj(&self) -> Option<ZzHidObj> {
            None
        }
        async fn take(&self, a: Option<ZzHidInput>, w: Option<Wrapper>) -> i32 {
            let _ = (a, w);
            0
        }
        async fn ok(&self) -> i32 {
            0
        }
        /// the predicate was put on the type only
        async fn audit(&self) -> Option<ZzAdminAudit> {
            None
        }
    }

    pub fn run(st: &mut Stats) -> Vec<Problem> {
        let schema = Schema::new(Query, EmptyMutation, EmptySubscription);
        let mut m = with_builtins("Query");
        m.add(IType {
            name: "ZzAdminAudit".into(),
            desc: None,
            kind: IKind::Object { fields: vec![fld("entries", "Int!")], implements: vec![] },
        });
        m.add(IType { name: "ZzHidObj".into(), desc: None, kind: IKind::Object { fields: vec![fld("a", "Int!")], implements: vec![] } });
        m.add(IType { name: "ZzHidInput".into(), desc: None, kind: IKind::Input { fields: vec![arg("a", "Int!")], oneof: false } });
        m.add(IType {
            name: "ZzHidEnum".into(),
            desc: None,
            kind: IKind::Enum { values: vec![IEnumVal { name: "A".into(), desc: None, dep: None }] },
        });
        m.add(IType {
            name: "Wrapper".into(),
            desc: None,
            kind: IKind::Input { fields: vec![arg("ok", "Int"), arg("inner", "ZzHidEnum")], oneof: false },
        });
        m.add(IType {
            name: "Query".into(),
            desc: None,
            kind: IKind::Object {
                fields: vec![
                    fld("obj", "ZzHidObj"),
                    fld("take", "Int!").args(vec![arg("a", "ZzHidInput"), arg("w", "Wrapper")]),
                    fld("ok", "Int!"),
                    fld("audit", "ZzAdminAudit").desc("the predicate was put on the type only"),
                ],
                implements: vec![],
            },
        });
        let exec = |r: Request| vh_core::vsched::block_on(schema.execute(r));
        let v = vm(m, &[("ZzHidObj", p_never), ("ZzHidInput", p_never), ("ZzHidEnum", p_never), ("ZzAdminAudit", p_admin)]);
        over_contexts(&exec, Some(schema.sdl_with_options(sdl_opts())), &v, &[0, 1], st)
    }
}

mod one_pass {
    use async_graphql::*;

    use super::*;

    pub struct User;
    #[Object]
    impl User {
        async fn y(&self) -> i32 {
            0
        }
    }
    pub struct Deep;
    #[Object]
    impl Deep {
        async fn y(&self) -> i32 {
            0
        }
        async fn a(&self) -> i32 {
            0
        }
    }
    #[derive(Interface)]
    #[graphql(field(name = "y", ty = "i32"))]
    pub enum Yonder {
        User(User),
        Deep(Deep),
    }
    #[derive(Interface)]
    #[graphql(field(name = "a", ty = "i32"))]
    pub enum Aaa {
        Deep(Deep),
    }
    pub struct Query;
    #[Object]
    impl Query {
        async fn user(&self) -> User {
            User
        }
    }

    pub fn run(st: &mut Stats) -> Vec<Problem> {
        let schema = Schema::build(Query, EmptyMutation, EmptySubscription)
            .register_output_type::<Yonder>()
            .register_output_type::<Aaa>()
            .finish();
        let mut m = with_builtins("Query");
        m.add(IType { name: "User".into(), desc: None, kind: IKind::Object { fields: vec![fld("y", "Int!")], implements: names(&["Yonder"]) } });
        m.add(IType {
            name: "Deep".into(),
            desc: None,
            kind: IKind::Object { fields: vec![fld("y", "Int!"), fld("a", "Int!")], implements: names(&["Yonder", "Aaa"]) },
        });
        m.add(IType { name: "Yonder".into(), desc: None, kind: IKind::Interface { fields: vec![fld("y", "Int!")], implements: vec![] } });
        m.add(IType { name: "Aaa".into(), desc: None, kind: IKind::Interface { fields: vec![fld("a", "Int!")], implements: vec![] } });
        m.add(IType { name: "Query".into(), desc: None, kind: IKind::Object { fields: vec![fld("user", "User!")], implements: vec![] } });
        let exec = |r: Request| vh_core::vsched::block_on(schema.execute(r));
        over_contexts(&exec, Some(schema.sdl_with_options(sdl_opts())), &vm(m, &[]), &[0], st)
    }
}

mod hidden_directive {
    use async_graphql::*;

    use super::*;

    fn is_admin(ctx: &Context<'_>) -> bool {
        ctx.data_opt::<crate::vis::Flags>().map(|f| f.admin).unwrap_or(false)
    }

    pub struct NoEffect;
    impl CustomDirective for NoEffect {}

    #[Directive(location = "Field", visible = false)]
    pub fn zz_never_mark() -> impl CustomDirective {
        NoEffect
    }
    #[Directive(location = "Field", visible = "is_admin")]
    pub fn zz_admin_mark() -> impl CustomDirective {
        NoEffect
    }
    #[Directive(location = "Field")]
    pub fn whisper(#[graphql(visible = "is_admin")] zz_admin_hush: Option<bool>, low: Option<i32>) -> impl CustomDirective {
        let _ = (zz_admin_hush, low);
        NoEffect
    }

    pub struct Query;
    #[Object]
    impl Query {
        async fn ok(&self) -> i32 {
            0
        }
    }

    pub fn run(st: &mut Stats) -> Vec<Problem> {
        let schema = Schema::build(Query, EmptyMutation, EmptySubscription)
            .directive(zz_never_mark)
            .directive(zz_admin_mark)
            .directive(whisper)
            .finish();
        let mut m = with_builtins("Query");
        m.add(IType { name: "Query".into(), desc: None, kind: IKind::Object { fields: vec![fld("ok", "Int!")], implements: vec![] } });
        let exec = |r: Request| vh_core::vsched::block_on(schema.execute(r));
        let mut v = vm(m, &[("@zz_never_mark", p_never), ("@zz_admin_mark", p_admin), ("@whisper(zzAdminHush)", p_admin)]);
        v.dirs = vec![
            VDir { name: "zz_never_mark".into(), args: vec![] },
            VDir { name: "zz_admin_mark".into(), args: vec![] },
            VDir { name: "whisper".into(), args: names(&["zzAdminHush", "low"]) },
        ];
        over_contexts(&exec, Some(schema.sdl_with_options(sdl_opts())), &v, &[0, 1], st)
    }
}
