//! V1 — a static schema family written by hand whose elements carry
//! `#[graphql(visible = ...)]` predicates that read request data, and the hand
//! model the monitor compares introspection with.
//!
//! Naming rule that makes a substring scan of the raw response a sound
//! detector: every element that can be hidden has a name containing `zz`
//! (`zzAdminEmail`, `ZZ_INTERNAL_ITEM_D`, `ZzBetaObjC`); nothing else in the
//! schema (names, descriptions, reasons, default values) contains `zz` in any
//! letter case. `Vm::check_naming` verifies that rule at start-up.

use std::collections::{BTreeMap, BTreeSet};

use async_graphql::*;
use futures_util::stream::{self, Stream};
use vh_model::{Ty, Val};

use crate::im::*;

/// The request data the predicates read.
#[derive(Clone, Copy, Default, Debug, PartialEq, Eq)]
pub struct Flags {
    pub admin: bool,
    pub beta: bool,
    pub internal: bool,
    pub legacy: bool,
}

impl Flags {
    pub fn from_bits(b: u8) -> Flags {
        Flags { admin: b & 1 != 0, beta: b & 2 != 0, internal: b & 4 != 0, legacy: b & 8 != 0 }
    }
    pub fn label(&self) -> String {
        format!(
            "admin={} beta={} internal={} legacy={}",
            self.admin as u8, self.beta as u8, self.internal as u8, self.legacy as u8
        )
    }
}

fn flags(ctx: &Context<'_>) -> Flags {
    ctx.data_opt::<Flags>().copied().unwrap_or_default()
}
fn is_admin(ctx: &Context<'_>) -> bool {
    flags(ctx).admin
}
fn is_beta(ctx: &Context<'_>) -> bool {
    flags(ctx).beta
}
fn is_internal(ctx: &Context<'_>) -> bool {
    flags(ctx).internal
}
fn is_legacy(ctx: &Context<'_>) -> bool {
    flags(ctx).legacy
}
fn is_admin_and_beta(ctx: &Context<'_>) -> bool {
    flags(ctx).admin && flags(ctx).beta
}

// ------------------------------------------------------------------ the schema

pub struct Stamp(pub i64);

/// A point in time
#[Scalar(specified_by_url = "https://example.org/stamp")]
impl ScalarType for Stamp {
    fn parse(value: Value) -> InputValueResult<Self> {
        match value {
            Value::Number(n) => Ok(Stamp(n.as_i64().unwrap_or(0))),
            _ => Err(InputValueError::expected_type(value)),
        }
    }
    fn to_value(&self) -> Value {
        Value::from(self.0)
    }
}

pub struct ZzInternalScalarL(pub i64);

#[Scalar(visible = "is_internal")]
impl ScalarType for ZzInternalScalarL {
    fn parse(value: Value) -> InputValueResult<Self> {
        match value {
            Value::Number(n) => Ok(ZzInternalScalarL(n.as_i64().unwrap_or(0))),
            _ => Err(InputValueError::expected_type(value)),
        }
    }
    fn to_value(&self) -> Value {
        Value::from(self.0)
    }
}

/// Paint
#[derive(Enum, Copy, Clone, Eq, PartialEq)]
pub enum Color {
    Red,
    /// the middle one
    #[graphql(deprecation = "use RED")]
    Green,
    #[graphql(visible = "is_internal")]
    ZzInternalItemD,
    #[graphql(visible = false)]
    ZzNeverItem,
    #[graphql(visible = "is_legacy", deprecation = "legacy only")]
    ZzLegacyItemN,
}

#[derive(Enum, Copy, Clone, Eq, PartialEq)]
#[graphql(visible = "is_beta")]
pub enum ZzBetaEnumH {
    On,
    Off,
}

#[derive(InputObject)]
pub struct Nested {
    /// how deep
    #[graphql(default = 1)]
    depth: i32,
    again: Option<Box<Nested>>,
}

/// Narrow the result
#[derive(InputObject)]
pub struct Filter {
    #[graphql(default = 10)]
    limit: i32,
    color: Option<Color>,
    #[graphql(visible = "is_legacy")]
    zz_legacy_in_field_e: Option<String>,
    #[graphql(visible = false)]
    zz_never_in_field: Option<i32>,
    #[graphql(deprecation = "no effect")]
    old: Option<bool>,
    nested: Option<Nested>,
    #[graphql(default_with = "vec![1, 2]")]
    ids: Vec<i32>,
    #[graphql(visible = "is_beta")]
    zz_beta_in_field_p: Option<ZzBetaEnumH>,
}

#[derive(InputObject)]
#[graphql(visible = "is_beta")]
pub struct ZzBetaInputG {
    a: i32,
}

#[derive(OneofObject)]
pub enum Pick {
    ById(ID),
    ByName(String),
    #[graphql(visible = "is_legacy")]
    ZzLegacyOneofM(i32),
}

pub struct User;

/// A person
#[Object]
impl User {
    async fn id(&self) -> ID {
        ID::from("u1")
    }
    /// display name
    async fn name(&self) -> String {
        "n".into()
    }
    #[graphql(visible = "is_admin")]
    async fn zz_admin_email(&self) -> Option<String> {
        None
    }
    #[graphql(deprecation = "use name")]
    async fn nick(&self) -> Option<String> {
        None
    }
    #[graphql(visible = false)]
    async fn zz_never_secret(&self) -> i32 {
        0
    }
    async fn tags(&self) -> Vec<String> {
        vec![]
    }
    async fn y(&self) -> i32 {
        0
    }
    async fn z(&self) -> i32 {
        0
    }
    #[graphql(visible = "is_beta")]
    async fn zz_beta_iface_field(&self) -> i32 {
        0
    }
    async fn friends(
        &self,
        #[graphql(default = 10)] first: i32,
        #[graphql(visible = "is_admin_and_beta")] zz_admin_beta_arg_q: Option<bool>,
    ) -> Vec<User> {
        let _ = (first, zz_admin_beta_arg_q);
        vec![]
    }
}

pub struct ZzAdminNodeB;

#[Object(visible = "is_admin")]
impl ZzAdminNodeB {
    async fn id(&self) -> ID {
        ID::from("b")
    }
    #[graphql(visible = "is_beta")]
    async fn zz_beta_iface_field(&self) -> i32 {
        0
    }
    async fn level(&self) -> i32 {
        0
    }
}

pub struct ZzNeverNodeC;

#[Object(visible = false)]
impl ZzNeverNodeC {
    async fn id(&self) -> ID {
        ID::from("c")
    }
    #[graphql(visible = "is_beta")]
    async fn zz_beta_iface_field(&self) -> i32 {
        0
    }
}

pub struct Deep;

/// Reachable only as a possible type of `Yonder`.
#[Object]
impl Deep {
    async fn y(&self) -> i32 {
        0
    }
    async fn only_deep(&self) -> Option<OnlyViaDeep> {
        None
    }
}

#[derive(SimpleObject)]
pub struct OnlyViaDeep {
    v: i32,
}

pub struct ZzInternalObjJ;

#[Object(visible = "is_internal")]
impl ZzInternalObjJ {
    async fn z(&self) -> i32 {
        0
    }
}

#[derive(SimpleObject)]
#[graphql(visible = "is_beta")]
pub struct ZzBetaObjC {
    b: i32,
}

/// Reachable only as a member of `SearchResult`.
#[derive(SimpleObject)]
pub struct OnlyViaUnion {
    #[graphql(deprecation)]
    u: i32,
    stamp: Stamp,
}

#[derive(SimpleObject)]
#[graphql(visible = "is_admin")]
pub struct ZzAdminObjA {
    x: i32,
    inner: Option<OnlyViaAdmin>,
}

#[derive(SimpleObject)]
pub struct OnlyViaAdmin {
    w: i32,
}

/// Anything with an id
#[derive(Interface)]
#[graphql(
    field(name = "id", ty = "ID", desc = "the id"),
    field(name = "zz_beta_iface_field", ty = "i32", visible = "is_beta")
)]
pub enum Node {
    User(User),
    ZzAdminNodeB(ZzAdminNodeB),
    ZzNeverNodeC(ZzNeverNodeC),
}

/// Returned by no field; listed because `User` implements it.
#[derive(Interface)]
#[graphql(field(name = "tags", ty = "Vec<String>"))]
pub enum Tagged {
    User(User),
}

#[derive(Interface)]
#[graphql(field(name = "y", ty = "i32"))]
pub enum Yonder {
    User(User),
    Deep(Deep),
}

#[derive(Interface)]
#[graphql(visible = "is_internal", field(name = "z", ty = "i32"))]
pub enum ZzInternalIface {
    User(User),
    ZzInternalObjJ(ZzInternalObjJ),
}

#[derive(Union)]
pub enum SearchResult {
    User(User),
    ZzBetaObjC(ZzBetaObjC),
    ZzNeverNodeC(ZzNeverNodeC),
    OnlyViaUnion(OnlyViaUnion),
}

#[derive(Union)]
#[graphql(visible = "is_legacy")]
pub enum ZzLegacyUnionR {
    User(User),
    OnlyViaUnion(OnlyViaUnion),
}

// -- nested interface chains: an interface is a variant of the next outer one; the objects are registered only
// under the innermost interface of their branch.

pub struct ChainLeaf;

/// Registered under `Lvl4` only.
#[Object]
impl ChainLeaf {
    async fn rank(&self) -> i32 {
        0
    }
    async fn two(&self) -> i32 {
        0
    }
    async fn three(&self) -> i32 {
        0
    }
    async fn four(&self) -> i32 {
        0
    }
    async fn own(&self) -> Option<String> {
        None
    }
}

pub struct MidLeaf;

/// Registered under `Lvl2` only.
#[Object]
impl MidLeaf {
    async fn rank(&self) -> i32 {
        0
    }
    async fn two(&self) -> i32 {
        0
    }
}

#[derive(Interface)]
#[graphql(
    field(name = "rank", ty = "i32"),
    field(name = "two", ty = "i32"),
    field(name = "three", ty = "i32"),
    field(name = "four", ty = "i32")
)]
pub enum Lvl4 {
    ChainLeaf(ChainLeaf),
}

#[derive(Interface)]
#[graphql(field(name = "rank", ty = "i32"), field(name = "two", ty = "i32"), field(name = "three", ty = "i32"))]
pub enum Lvl3 {
    Lvl4(Lvl4),
}

#[derive(Interface)]
#[graphql(field(name = "rank", ty = "i32"), field(name = "two", ty = "i32"))]
pub enum Lvl2 {
    Lvl3(Lvl3),
    MidLeaf(MidLeaf),
}

/// Outermost of four nested interfaces
#[derive(Interface)]
#[graphql(field(name = "rank", ty = "i32"))]
pub enum Lvl1 {
    Lvl2(Lvl2),
}

// a chain whose middle interface is hidden unless the request is internal

pub struct HopLeaf;

#[Object]
impl HopLeaf {
    async fn hops(&self) -> i32 {
        0
    }
    async fn leaf_only(&self) -> i32 {
        0
    }
}

pub struct HopSide;

/// Registered directly under the interface that can be hidden.
#[Object]
impl HopSide {
    async fn hops(&self) -> i32 {
        0
    }
}

#[derive(Interface)]
#[graphql(field(name = "hops", ty = "i32"))]
pub enum Hop3 {
    HopLeaf(HopLeaf),
}

#[derive(Interface)]
#[graphql(visible = "is_internal", field(name = "hops", ty = "i32"))]
pub enum ZzInternalHop2 {
    Hop3(Hop3),
    HopSide(HopSide),
}

#[derive(Interface)]
#[graphql(field(name = "hops", ty = "i32"))]
pub enum Hop1 {
    ZzInternalHop2(ZzInternalHop2),
}

// a chain whose middle interface is never visible

#[derive(SimpleObject)]
pub struct FarLeaf {
    far: i32,
}

#[derive(Interface)]
#[graphql(visible = false, field(name = "far", ty = "&i32"))]
pub enum ZzNeverFar2 {
    FarLeaf(FarLeaf),
}

#[derive(Interface)]
#[graphql(field(name = "far", ty = "&i32"))]
pub enum Far1 {
    ZzNeverFar2(ZzNeverFar2),
}

// -- custom directives

pub struct NoEffect;

impl CustomDirective for NoEffect {}

/// Repeat the value
#[Directive(location = "Field")]
pub fn shout(#[graphql(default = 1)] times: i32) -> impl CustomDirective {
    let _ = times;
    NoEffect
}

#[Directive(location = "Field")]
pub fn whisper(#[graphql(visible = "is_admin")] zz_admin_hush: Option<bool>, low: Option<i32>) -> impl CustomDirective {
    let _ = (zz_admin_hush, low);
    NoEffect
}

#[Directive(location = "Field", visible = false)]
pub fn zz_never_mark() -> impl CustomDirective {
    NoEffect
}

#[Directive(location = "Field", visible = "is_beta")]
pub fn zz_beta_mark(level: Option<i32>) -> impl CustomDirective {
    let _ = level;
    NoEffect
}

pub struct Query;

/// The root
#[Object]
impl Query {
    /// nothing special
    async fn plain(
        &self,
        #[graphql(default = 5)] n: i32,
        #[graphql(visible = "is_beta")] zz_beta_arg_a: Option<String>,
        #[graphql(deprecation = "ignored", desc = "not used")] old: Option<i32>,
    ) -> i32 {
        let _ = (zz_beta_arg_a, old);
        n
    }
    async fn user(&self) -> User {
        User
    }
    async fn node(&self, id: ID) -> Option<Node> {
        let _ = id;
        None
    }
    async fn search(&self, #[graphql(default = "x")] text: String) -> Vec<SearchResult> {
        let _ = text;
        vec![]
    }
    async fn color(&self, #[graphql(default_with = "Color::Red")] c: Color) -> Color {
        c
    }
    async fn filter(&self, f: Filter, p: Option<Pick>) -> i32 {
        let _ = (f, p);
        0
    }
    async fn stamp(&self) -> Stamp {
        Stamp(0)
    }
    #[graphql(visible = "is_admin")]
    async fn zz_admin_field_a(&self) -> Option<ZzAdminObjA> {
        None
    }
    #[graphql(visible = false)]
    async fn zz_never_field(&self) -> i32 {
        0
    }
    #[graphql(visible = "is_beta")]
    async fn zz_beta_field_f(&self, arg: Option<ZzBetaInputG>) -> Option<ZzBetaEnumH> {
        let _ = arg;
        None
    }
    #[graphql(visible = "is_internal")]
    async fn zz_internal_iface_field(&self) -> Option<ZzInternalIface> {
        None
    }
    #[graphql(visible = "is_internal")]
    async fn zz_internal_scalar_field(&self, s: Option<ZzInternalScalarL>) -> Option<ZzInternalScalarL> {
        s
    }
    #[graphql(visible = "is_legacy")]
    async fn zz_legacy_union_field(&self) -> Vec<ZzLegacyUnionR> {
        vec![]
    }
    async fn chain_top(&self) -> Option<Lvl1> {
        None
    }
    async fn hop1(&self) -> Option<Hop1> {
        None
    }
    async fn hop_leaf(&self) -> Option<HopLeaf> {
        None
    }
    async fn hop_side(&self) -> Option<HopSide> {
        None
    }
    async fn far1(&self) -> Option<Far1> {
        None
    }
    async fn far_leaf(&self) -> Option<FarLeaf> {
        None
    }
}

pub struct ZzAdminMutation;

#[Object(visible = "is_admin")]
impl ZzAdminMutation {
    async fn rename(&self, id: ID, #[graphql(visible = "is_beta")] zz_beta_arg_s: Option<Filter>) -> User {
        let _ = (id, zz_beta_arg_s);
        User
    }
}

pub struct ZzBetaSubscription;

#[Subscription(visible = "is_beta")]
impl ZzBetaSubscription {
    async fn ticks(&self, #[graphql(default = 1)] every: i32) -> impl Stream<Item = i32> {
        let _ = every;
        stream::empty()
    }
    #[graphql(visible = "is_internal")]
    async fn zz_internal_ticks(&self) -> impl Stream<Item = Color> {
        stream::empty()
    }
}

pub type V1Schema = Schema<Query, ZzAdminMutation, ZzBetaSubscription>;

/// `directive_visibility`: register the custom directives that carry a visibility rule (on themselves or on an
/// argument) as well.
pub fn schema(directive_visibility: bool) -> V1Schema {
    let mut b = Schema::build(Query, ZzAdminMutation, ZzBetaSubscription)
        .register_output_type::<Tagged>()
        .register_output_type::<Yonder>()
        .register_output_type::<Node>()
        .register_output_type::<ZzInternalIface>()
        .directive(shout);
    if directive_visibility {
        b = b.directive(whisper).directive(zz_never_mark).directive(zz_beta_mark);
    }
    b.finish()
}

// ---------------------------------------------------------------- the hand model

pub type Pred = fn(Flags) -> bool;

pub fn p_admin(f: Flags) -> bool {
    f.admin
}
fn p_beta(f: Flags) -> bool {
    f.beta
}
fn p_internal(f: Flags) -> bool {
    f.internal
}
fn p_legacy(f: Flags) -> bool {
    f.legacy
}
fn p_admin_and_beta(f: Flags) -> bool {
    f.admin && f.beta
}
pub fn p_never(_: Flags) -> bool {
    false
}

/// A custom directive definition of the source: its name and argument names.
#[derive(Clone, Debug, PartialEq)]
pub struct VDir {
    pub name: String,
    pub args: Vec<String>,
}

/// A model whose elements may carry a visibility predicate. Paths: type `T`;
/// field, enum value or input field `T.x`; argument `T.f(a)`; custom directive
/// `@d`; directive argument `@d(a)`.
pub struct Vm {
    pub full: IModel,
    pub vis: BTreeMap<String, Pred>,
    /// custom directive definitions registered on the schema
    pub dirs: Vec<VDir>,
}

pub fn fld(name: &str, ty: &str) -> IField {
    IField { name: name.into(), args: vec![], ty: Ty::parse(ty), desc: None, dep: None }
}
pub fn arg(name: &str, ty: &str) -> IArg {
    IArg { name: name.into(), ty: Ty::parse(ty), default: None, desc: None, dep: None }
}
pub trait With: Sized {
    fn desc(self, d: &str) -> Self;
    fn dep(self, r: Option<&str>) -> Self;
}
impl With for IField {
    fn desc(mut self, d: &str) -> Self {
        self.desc = Some(d.into());
        self
    }
    fn dep(mut self, r: Option<&str>) -> Self {
        self.dep = Some(r.map(|s| s.to_string()));
        self
    }
}
impl With for IArg {
    fn desc(mut self, d: &str) -> Self {
        self.desc = Some(d.into());
        self
    }
    fn dep(mut self, r: Option<&str>) -> Self {
        self.dep = Some(r.map(|s| s.to_string()));
        self
    }
}
impl IField {
    pub fn args(mut self, a: Vec<IArg>) -> Self {
        self.args = a;
        self
    }
}
impl IArg {
    pub fn default(mut self, v: Val) -> Self {
        self.default = Some(v);
        self
    }
}
fn ev(name: &str) -> IEnumVal {
    IEnumVal { name: name.into(), desc: None, dep: None }
}
pub fn names(xs: &[&str]) -> Vec<String> {
    xs.iter().map(|s| s.to_string()).collect()
}

pub fn hand_model(directive_visibility: bool) -> Vm {
    let mut m = with_builtins("Query");
    m.mutation = Some("ZzAdminMutation".into());
    m.subscription = Some("ZzBetaSubscription".into());
    let mut vis: BTreeMap<String, Pred> = BTreeMap::new();
    let mut v = |path: &str, p: Pred| {
        vis.insert(path.to_string(), p);
    };
    let mut ty = |name: &str, desc: Option<&str>, kind: IKind| {
        m.add(IType { name: name.into(), desc: desc.map(|s| s.to_string()), kind });
    };

    ty("Stamp", Some("A point in time"), IKind::Scalar { specified_by: Some("https://example.org/stamp".into()) });
    ty("ZzInternalScalarL", None, IKind::Scalar { specified_by: None });
    v("ZzInternalScalarL", p_internal);

    let mut green = ev("GREEN");
    green.desc = Some("the middle one".into());
    green.dep = Some(Some("use RED".into()));
    let mut legacy_item = ev("ZZ_LEGACY_ITEM_N");
    legacy_item.dep = Some(Some("legacy only".into()));
    ty(
        "Color",
        Some("Paint"),
        IKind::Enum { values: vec![ev("RED"), green, ev("ZZ_INTERNAL_ITEM_D"), ev("ZZ_NEVER_ITEM"), legacy_item] },
    );
    v("Color.ZZ_INTERNAL_ITEM_D", p_internal);
    v("Color.ZZ_NEVER_ITEM", p_never);
    v("Color.ZZ_LEGACY_ITEM_N", p_legacy);
    ty("ZzBetaEnumH", None, IKind::Enum { values: vec![ev("ON"), ev("OFF")] });
    v("ZzBetaEnumH", p_beta);

    ty(
        "Nested",
        None,
        IKind::Input {
            fields: vec![arg("depth", "Int!").default(Val::Int(1)).desc("how deep"), arg("again", "Nested")],
            oneof: false,
        },
    );
    ty(
        "Filter",
        Some("Narrow the result"),
        IKind::Input {
            fields: vec![
                arg("limit", "Int!").default(Val::Int(10)),
                arg("color", "Color"),
                arg("zzLegacyInFieldE", "String"),
                arg("zzNeverInField", "Int"),
                arg("old", "Boolean").dep(Some("no effect")),
                arg("nested", "Nested"),
                arg("ids", "[Int!]!").default(Val::List(vec![Val::Int(1), Val::Int(2)])),
                arg("zzBetaInFieldP", "ZzBetaEnumH"),
            ],
            oneof: false,
        },
    );
    v("Filter.zzLegacyInFieldE", p_legacy);
    v("Filter.zzNeverInField", p_never);
    v("Filter.zzBetaInFieldP", p_beta);
    ty("ZzBetaInputG", None, IKind::Input { fields: vec![arg("a", "Int!")], oneof: false });
    v("ZzBetaInputG", p_beta);
    ty(
        "Pick",
        None,
        IKind::Input { fields: vec![arg("byId", "ID"), arg("byName", "String"), arg("zzLegacyOneofM", "Int")], oneof: true },
    );
    v("Pick.zzLegacyOneofM", p_legacy);

    ty(
        "User",
        Some("A person"),
        IKind::Object {
            fields: vec![
                fld("id", "ID!"),
                fld("name", "String!").desc("display name"),
                fld("zzAdminEmail", "String"),
                fld("nick", "String").dep(Some("use name")),
                fld("zzNeverSecret", "Int!"),
                fld("tags", "[String!]!"),
                fld("y", "Int!"),
                fld("z", "Int!"),
                fld("zzBetaIfaceField", "Int!"),
                fld("friends", "[User!]!")
                    .args(vec![arg("first", "Int!").default(Val::Int(10)), arg("zzAdminBetaArgQ", "Boolean")]),
            ],
            implements: names(&["Node", "Tagged", "Yonder", "ZzInternalIface"]),
        },
    );
    v("User.zzAdminEmail", p_admin);
    v("User.zzNeverSecret", p_never);
    v("User.zzBetaIfaceField", p_beta);
    v("User.friends(zzAdminBetaArgQ)", p_admin_and_beta);
    ty(
        "ZzAdminNodeB",
        None,
        IKind::Object {
            fields: vec![fld("id", "ID!"), fld("zzBetaIfaceField", "Int!"), fld("level", "Int!")],
            implements: names(&["Node"]),
        },
    );
    v("ZzAdminNodeB", p_admin);
    v("ZzAdminNodeB.zzBetaIfaceField", p_beta);
    ty(
        "ZzNeverNodeC",
        None,
        IKind::Object { fields: vec![fld("id", "ID!"), fld("zzBetaIfaceField", "Int!")], implements: names(&["Node"]) },
    );
    v("ZzNeverNodeC", p_never);
    v("ZzNeverNodeC.zzBetaIfaceField", p_beta);
    ty(
        "Deep",
        Some("Reachable only as a possible type of `Yonder`."),
        IKind::Object {
            fields: vec![fld("y", "Int!"), fld("onlyDeep", "OnlyViaDeep")],
            implements: names(&["Yonder"]),
        },
    );
    ty("OnlyViaDeep", None, IKind::Object { fields: vec![fld("v", "Int!")], implements: vec![] });
    ty("ZzInternalObjJ", None, IKind::Object { fields: vec![fld("z", "Int!")], implements: names(&["ZzInternalIface"]) });
    v("ZzInternalObjJ", p_internal);
    ty("ZzBetaObjC", None, IKind::Object { fields: vec![fld("b", "Int!")], implements: vec![] });
    v("ZzBetaObjC", p_beta);
    ty(
        "OnlyViaUnion",
        Some("Reachable only as a member of `SearchResult`."),
        IKind::Object { fields: vec![fld("u", "Int!").dep(None), fld("stamp", "Stamp!")], implements: vec![] },
    );
    ty(
        "ZzAdminObjA",
        None,
        IKind::Object { fields: vec![fld("x", "Int!"), fld("inner", "OnlyViaAdmin")], implements: vec![] },
    );
    v("ZzAdminObjA", p_admin);
    ty("OnlyViaAdmin", None, IKind::Object { fields: vec![fld("w", "Int!")], implements: vec![] });

    ty(
        "Node",
        Some("Anything with an id"),
        IKind::Interface { fields: vec![fld("id", "ID!").desc("the id"), fld("zzBetaIfaceField", "Int!")], implements: vec![] },
    );
    v("Node.zzBetaIfaceField", p_beta);
    ty(
        "Tagged",
        Some("Returned by no field; listed because `User` implements it."),
        IKind::Interface { fields: vec![fld("tags", "[String!]!")], implements: vec![] },
    );
    ty("Yonder", None, IKind::Interface { fields: vec![fld("y", "Int!")], implements: vec![] });
    ty("ZzInternalIface", None, IKind::Interface { fields: vec![fld("z", "Int!")], implements: vec![] });
    v("ZzInternalIface", p_internal);

    // nested interface chains. What the source declares: an interface that is a variant of another interface
    // implements it, so everything below implements every interface above it; nothing is re-declared.
    let ints = |ns: &[&str]| -> Vec<IField> { ns.iter().map(|n| fld(n, "Int!")).collect() };
    ty(
        "ChainLeaf",
        Some("Registered under `Lvl4` only."),
        IKind::Object {
            fields: {
                let mut f = ints(&["rank", "two", "three", "four"]);
                f.push(fld("own", "String"));
                f
            },
            implements: names(&["Lvl4", "Lvl3", "Lvl2", "Lvl1"]),
        },
    );
    ty(
        "MidLeaf",
        Some("Registered under `Lvl2` only."),
        IKind::Object { fields: ints(&["rank", "two"]), implements: names(&["Lvl2", "Lvl1"]) },
    );
    ty(
        "Lvl4",
        None,
        IKind::Interface { fields: ints(&["rank", "two", "three", "four"]), implements: names(&["Lvl3", "Lvl2", "Lvl1"]) },
    );
    ty("Lvl3", None, IKind::Interface { fields: ints(&["rank", "two", "three"]), implements: names(&["Lvl2", "Lvl1"]) });
    ty("Lvl2", None, IKind::Interface { fields: ints(&["rank", "two"]), implements: names(&["Lvl1"]) });
    ty(
        "Lvl1",
        Some("Outermost of four nested interfaces"),
        IKind::Interface { fields: ints(&["rank"]), implements: vec![] },
    );
    ty(
        "HopLeaf",
        None,
        IKind::Object { fields: ints(&["hops", "leafOnly"]), implements: names(&["Hop3", "ZzInternalHop2", "Hop1"]) },
    );
    ty(
        "HopSide",
        Some("Registered directly under the interface that can be hidden."),
        IKind::Object { fields: ints(&["hops"]), implements: names(&["ZzInternalHop2", "Hop1"]) },
    );
    ty("Hop3", None, IKind::Interface { fields: ints(&["hops"]), implements: names(&["ZzInternalHop2", "Hop1"]) });
    ty("ZzInternalHop2", None, IKind::Interface { fields: ints(&["hops"]), implements: names(&["Hop1"]) });
    v("ZzInternalHop2", p_internal);
    ty("Hop1", None, IKind::Interface { fields: ints(&["hops"]), implements: vec![] });
    ty("FarLeaf", None, IKind::Object { fields: ints(&["far"]), implements: names(&["ZzNeverFar2", "Far1"]) });
    ty("ZzNeverFar2", None, IKind::Interface { fields: ints(&["far"]), implements: names(&["Far1"]) });
    v("ZzNeverFar2", p_never);
    ty("Far1", None, IKind::Interface { fields: ints(&["far"]), implements: vec![] });

    ty("SearchResult", None, IKind::Union { members: names(&["User", "ZzBetaObjC", "ZzNeverNodeC", "OnlyViaUnion"]) });
    ty("ZzLegacyUnionR", None, IKind::Union { members: names(&["User", "OnlyViaUnion"]) });
    v("ZzLegacyUnionR", p_legacy);

    ty(
        "Query",
        Some("The root"),
        IKind::Object {
            fields: vec![
                fld("plain", "Int!").desc("nothing special").args(vec![
                    arg("n", "Int!").default(Val::Int(5)),
                    arg("zzBetaArgA", "String"),
                    arg("old", "Int").dep(Some("ignored")).desc("not used"),
                ]),
                fld("user", "User!"),
                fld("node", "Node").args(vec![arg("id", "ID!")]),
                fld("search", "[SearchResult!]!").args(vec![arg("text", "String!").default(Val::Str("x".into()))]),
                fld("color", "Color!").args(vec![arg("c", "Color!").default(Val::Enum("RED".into()))]),
                fld("filter", "Int!").args(vec![arg("f", "Filter!"), arg("p", "Pick")]),
                fld("stamp", "Stamp!"),
                fld("zzAdminFieldA", "ZzAdminObjA"),
                fld("zzNeverField", "Int!"),
                fld("zzBetaFieldF", "ZzBetaEnumH").args(vec![arg("arg", "ZzBetaInputG")]),
                fld("zzInternalIfaceField", "ZzInternalIface"),
                fld("zzInternalScalarField", "ZzInternalScalarL").args(vec![arg("s", "ZzInternalScalarL")]),
                fld("zzLegacyUnionField", "[ZzLegacyUnionR!]!"),
                fld("chainTop", "Lvl1"),
                fld("hop1", "Hop1"),
                fld("hopLeaf", "HopLeaf"),
                fld("hopSide", "HopSide"),
                fld("far1", "Far1"),
                fld("farLeaf", "FarLeaf"),
            ],
            implements: vec![],
        },
    );
    v("Query.plain(zzBetaArgA)", p_beta);
    v("Query.zzAdminFieldA", p_admin);
    v("Query.zzNeverField", p_never);
    v("Query.zzBetaFieldF", p_beta);
    v("Query.zzInternalIfaceField", p_internal);
    v("Query.zzInternalScalarField", p_internal);
    v("Query.zzLegacyUnionField", p_legacy);

    ty(
        "ZzAdminMutation",
        None,
        IKind::Object {
            fields: vec![fld("rename", "User!").args(vec![arg("id", "ID!"), arg("zzBetaArgS", "Filter")])],
            implements: vec![],
        },
    );
    v("ZzAdminMutation", p_admin);
    v("ZzAdminMutation.rename(zzBetaArgS)", p_beta);
    ty(
        "ZzBetaSubscription",
        None,
        IKind::Object {
            fields: vec![
                fld("ticks", "Int!").args(vec![arg("every", "Int!").default(Val::Int(1))]),
                fld("zzInternalTicks", "Color!"),
            ],
            implements: vec![],
        },
    );
    v("ZzBetaSubscription", p_beta);
    v("ZzBetaSubscription.zzInternalTicks", p_internal);

    // custom directives (`Schema::directive`)
    let mut dirs = vec![VDir { name: "shout".into(), args: names(&["times"]) }];
    if directive_visibility {
        dirs.push(VDir { name: "whisper".into(), args: names(&["zzAdminHush", "low"]) });
        v("@whisper(zzAdminHush)", p_admin);
        dirs.push(VDir { name: "zz_never_mark".into(), args: vec![] });
        v("@zz_never_mark", p_never);
        dirs.push(VDir { name: "zz_beta_mark".into(), args: names(&["level"]) });
        v("@zz_beta_mark", p_beta);
    }

    Vm { full: m, vis, dirs }
}

/// What introspection must show under `f`.
pub struct Expected {
    /// visible and reachable
    pub model: IModel,
    /// visible but not reachable through visible elements: may be listed or not
    pub optional: IModel,
    /// visible fields (`T.f`), arguments (`T.f(a)`) and input fields (`T.x`) whose type is hidden: the source does
    /// not say whether they are shown (if they are, I1 and the name scan judge them)
    pub optional_paths: BTreeSet<String>,
    /// names of the elements hidden in this context
    pub hidden: BTreeSet<String>,
    /// names containing `zz` that are visible in this context
    pub visible_sentinels: BTreeSet<String>,
    /// custom directives visible in this context, each with its visible argument names
    pub directives: BTreeMap<String, BTreeSet<String>>,
}

fn has_zz(s: &str) -> bool {
    s.to_ascii_lowercase().contains("zz")
}

impl Vm {
    fn on(&self, path: &str, f: Flags) -> bool {
        self.vis.get(path).map(|p| p(f)).unwrap_or(true)
    }

    /// The naming rule: an element has a predicate iff its name contains `zz`,
    /// no description / reason / default contains `zz`, every predicate path
    /// names an element of the model.
    pub fn check_naming(&self) -> Result<(), String> {
        let mut paths: BTreeSet<String> = BTreeSet::new();
        let mut chk = |path: String, name: &str, texts: Vec<Option<String>>| -> Result<(), String> {
            if has_zz(name) != self.vis.contains_key(&path) {
                return Err(format!("naming rule broken at {path}: name {name}, predicate {}", self.vis.contains_key(&path)));
            }
            for t in texts.into_iter().flatten() {
                if has_zz(&t) {
                    return Err(format!("text at {path} contains zz: {t:?}"));
                }
            }
            paths.insert(path);
            Ok(())
        };
        let dep_text = |d: &Dep| d.clone().flatten();
        for t in self.full.types.values() {
            chk(t.name.clone(), &t.name, vec![t.desc.clone()])?;
            match &t.kind {
                IKind::Object { fields, .. } | IKind::Interface { fields, .. } => {
                    for fd in fields {
                        chk(format!("{}.{}", t.name, fd.name), &fd.name, vec![fd.desc.clone(), dep_text(&fd.dep)])?;
                        for a in &fd.args {
                            chk(
                                format!("{}.{}({})", t.name, fd.name, a.name),
                                &a.name,
                                vec![a.desc.clone(), dep_text(&a.dep), a.default.as_ref().map(|d| d.gql())],
                            )?;
                        }
                    }
                }
                IKind::Enum { values } => {
                    for x in values {
                        chk(format!("{}.{}", t.name, x.name), &x.name, vec![x.desc.clone(), dep_text(&x.dep)])?;
                    }
                }
                IKind::Input { fields, .. } => {
                    for a in fields {
                        chk(
                            format!("{}.{}", t.name, a.name),
                            &a.name,
                            vec![a.desc.clone(), dep_text(&a.dep), a.default.as_ref().map(|d| d.gql())],
                        )?;
                    }
                }
                _ => {}
            }
        }
        for d in &self.dirs {
            chk(format!("@{}", d.name), &d.name, vec![])?;
            for a in &d.args {
                chk(format!("@{}({a})", d.name), a, vec![])?;
            }
        }
        for p in self.vis.keys() {
            if !paths.contains(p) {
                return Err(format!("predicate path {p} names no element"));
            }
        }
        Ok(())
    }

    pub fn restrict(&self, f: Flags) -> Expected {
        let mut hidden = BTreeSet::new();
        let mut visible_sentinels = BTreeSet::new();
        let mut note = |on: bool, name: &str| {
            if !on {
                hidden.insert(name.to_string());
            } else if has_zz(name) {
                visible_sentinels.insert(name.to_string());
            }
        };
        let type_on = |n: &str| self.on(n, f);
        let mut filtered = IModel { query: self.full.query.clone(), ..Default::default() };
        filtered.mutation = self.full.mutation.clone().filter(|n| type_on(n));
        filtered.subscription = self.full.subscription.clone().filter(|n| type_on(n));
        for t in self.full.types.values() {
            let t_on = type_on(&t.name);
            note(t_on, &t.name);
            let mut fields_of = |fields: &Vec<IField>| -> Vec<IField> {
                let mut out = vec![];
                for fd in fields {
                    let on = self.on(&format!("{}.{}", t.name, fd.name), f);
                    if t_on {
                        note(on, &fd.name);
                    }
                    let mut fd2 = fd.clone();
                    fd2.args = vec![];
                    for a in &fd.args {
                        let a_on = self.on(&format!("{}.{}({})", t.name, fd.name, a.name), f);
                        if t_on && on {
                            note(a_on, &a.name);
                        }
                        if a_on {
                            fd2.args.push(a.clone());
                        }
                    }
                    if on {
                        out.push(fd2);
                    }
                }
                out
            };
            let kind = match &t.kind {
                IKind::Scalar { specified_by } => IKind::Scalar { specified_by: specified_by.clone() },
                IKind::Object { fields, implements } => IKind::Object {
                    fields: fields_of(fields),
                    implements: implements.iter().filter(|i| type_on(i)).cloned().collect(),
                },
                IKind::Interface { fields, implements } => IKind::Interface {
                    fields: fields_of(fields),
                    implements: implements.iter().filter(|i| type_on(i)).cloned().collect(),
                },
                IKind::Union { members } => IKind::Union { members: members.iter().filter(|i| type_on(i)).cloned().collect() },
                IKind::Enum { values } => IKind::Enum {
                    values: values
                        .iter()
                        .filter(|x| {
                            let on = self.on(&format!("{}.{}", t.name, x.name), f);
                            if t_on {
                                note(on, &x.name);
                            }
                            on
                        })
                        .cloned()
                        .collect(),
                },
                IKind::Input { fields, oneof } => IKind::Input {
                    fields: fields
                        .iter()
                        .filter(|x| {
                            let on = self.on(&format!("{}.{}", t.name, x.name), f);
                            if t_on {
                                note(on, &x.name);
                            }
                            on
                        })
                        .cloned()
                        .collect(),
                    oneof: *oneof,
                },
            };
            if t_on {
                filtered.add(IType { name: t.name.clone(), desc: t.desc.clone(), kind });
            }
        }
        let mut directives: BTreeMap<String, BTreeSet<String>> = BTreeMap::new();
        for d in &self.dirs {
            let d_on = self.on(&format!("@{}", d.name), f);
            note(d_on, &d.name);
            if !d_on {
                continue;
            }
            let mut shown = BTreeSet::new();
            for a in &d.args {
                let a_on = self.on(&format!("@{}({a})", d.name), f);
                note(a_on, a);
                if a_on {
                    shown.insert(a.clone());
                }
            }
            directives.insert(d.name.clone(), shown);
        }
        // a name hidden in one place and visible in another is not a sentinel for this context
        let hidden: BTreeSet<String> = hidden.into_iter().filter(|h| !visible_sentinels.contains(h)).collect();
        // visible elements of hidden types
        let mut optional_paths = BTreeSet::new();
        let known: BTreeSet<String> = filtered.types.keys().cloned().collect();
        for t in filtered.types.values_mut() {
            let tn = t.name.clone();
            match &mut t.kind {
                IKind::Object { fields, .. } | IKind::Interface { fields, .. } => {
                    fields.retain(|fd| {
                        let ok = known.contains(fd.ty.name());
                        if !ok {
                            optional_paths.insert(format!("{tn}.{}", fd.name));
                        }
                        ok
                    });
                    for fd in fields.iter_mut() {
                        let fname = fd.name.clone();
                        fd.args.retain(|a| {
                            let ok = known.contains(a.ty.name());
                            if !ok {
                                optional_paths.insert(format!("{tn}.{fname}({})", a.name));
                            }
                            ok
                        });
                    }
                }
                IKind::Input { fields, .. } => fields.retain(|a| {
                    let ok = known.contains(a.ty.name());
                    if !ok {
                        optional_paths.insert(format!("{tn}.{}", a.name));
                    }
                    ok
                }),
                _ => {}
            }
        }
        let reach = crate::tsgen::reachable(&filtered);
        let mut model = IModel {
            query: filtered.query.clone(),
            mutation: filtered.mutation.clone(),
            subscription: filtered.subscription.clone(),
            ..Default::default()
        };
        let mut optional = IModel::default();
        for (n, t) in &filtered.types {
            if reach.contains(n) || is_builtin_scalar(n) {
                model.add(t.clone());
            } else {
                optional.add(t.clone());
            }
        }
        // objects that are listed drop interfaces / unions drop members that are not (they are all reachable
        // through the object / union itself, so nothing to drop: asserted by `dangling`)
        Expected { model, optional, optional_paths, hidden, visible_sentinels, directives }
    }
}

/// Type names `m` refers to without defining them (harness self-check of the
/// hand model: the clean family never shows a visible element of a hidden type).
pub fn dangling(m: &IModel) -> Vec<String> {
    let mut out = vec![];
    let mut need = |at: String, n: &str| {
        if !m.types.contains_key(n) {
            out.push(format!("{at} -> {n}"));
        }
    };
    for t in m.types.values() {
        match &t.kind {
            IKind::Object { fields, implements } | IKind::Interface { fields, implements } => {
                for fd in fields {
                    need(format!("{}.{}", t.name, fd.name), fd.ty.name());
                    for a in &fd.args {
                        need(format!("{}.{}({})", t.name, fd.name, a.name), a.ty.name());
                    }
                }
                for i in implements {
                    need(format!("{} implements", t.name), i);
                }
            }
            IKind::Union { members } => {
                for x in members {
                    need(format!("{} member", t.name), x);
                }
            }
            IKind::Input { fields, .. } => {
                for a in fields {
                    need(format!("{}.{}", t.name, a.name), a.ty.name());
                }
            }
            _ => {}
        }
    }
    for r in [Some(&m.query), m.mutation.as_ref(), m.subscription.as_ref()].into_iter().flatten() {
        need("root".into(), r);
    }
    out
}
