//! Reading GraphQL value literals (the `defaultValue` strings of introspection
//! and the default values of SDL) into harness values, through R2.

use vh_model::Val;
use vh_r2 as r2;

pub fn from_r2(v: &r2::Value) -> Val {
    match &v.kind {
        r2::ValueKind::Variable(n) => Val::Var(n.clone()),
        r2::ValueKind::Int(lex) => match lex.parse::<i64>() {
            Ok(i) => Val::Int(i),
            Err(_) => Val::Float(lex.parse::<f64>().unwrap_or(f64::NAN)),
        },
        r2::ValueKind::Float(lex) => Val::Float(lex.parse::<f64>().unwrap_or(f64::NAN)),
        r2::ValueKind::String(s) => Val::Str(s.value.clone()),
        r2::ValueKind::Boolean(b) => Val::Bool(*b),
        r2::ValueKind::Null => Val::Null,
        r2::ValueKind::Enum(e) => Val::Enum(e.clone()),
        r2::ValueKind::List(xs) => Val::List(xs.iter().map(from_r2).collect()),
        r2::ValueKind::Object(fs) => Val::Obj(fs.iter().map(|(n, v)| (n.value.clone(), from_r2(v))).collect()),
    }
}

/// Parse the text of one constant GraphQL value.
pub fn parse_value(text: &str) -> Result<Val, String> {
    let doc = format!("{{ f(a: {text}\n) }}");
    let p = r2::parse_executable(&doc, &r2::Options::default()).map_err(|e| format!("not a GraphQL value: {text:?}: {e}"))?;
    let op = p.doc.operations().next().ok_or("no operation")?;
    if p.doc.definitions.len() != 1 || op.selection_set.items.len() != 1 {
        return Err(format!("not a single GraphQL value: {text:?}"));
    }
    match &op.selection_set.items[0] {
        r2::Selection::Field(f) if f.arguments.len() == 1 && f.selection_set.is_none() && f.directives.is_empty() => {
            let v = from_r2(&f.arguments[0].value);
            if v.contains_var() {
                return Err(format!("value contains a variable: {text:?}"));
            }
            Ok(v)
        }
        _ => Err(format!("not a single GraphQL value: {text:?}")),
    }
}
