//! The introspection documents the monitor sends.
//!
//! `STANDARD` is the text graphql-js 16 `getIntrospectionQuery({ descriptions:
//! true, specifiedByUrl: true, directiveIsRepeatable: true, schemaDescription:
//! true, inputValueDeprecation: true, oneOf: true })` produces (nine `ofType`
//! levels). `LEGACY` is the same document the way older clients send it: no
//! `includeDeprecated` argument anywhere (the argument's default, `false`,
//! applies) and none of the optional fields.

pub const TYPE_REF: &str = r#"
fragment TypeRef on __Type {
  kind
  name
  ofType {
    kind
    name
    ofType {
      kind
      name
      ofType {
        kind
        name
        ofType {
          kind
          name
          ofType {
            kind
            name
            ofType {
              kind
              name
              ofType {
                kind
                name
                ofType {
                  kind
                  name
                  ofType {
                    kind
                    name
                  }
                }
              }
            }
          }
        }
      }
    }
  }
}
"#;

pub const FULL_TYPE: &str = r#"
fragment FullType on __Type {
  kind
  name
  description
  specifiedByURL
  isOneOf
  fields(includeDeprecated: true) {
    name
    description
    args(includeDeprecated: true) {
      ...InputValue
    }
    type {
      ...TypeRef
    }
    isDeprecated
    deprecationReason
  }
  inputFields(includeDeprecated: true) {
    ...InputValue
  }
  interfaces {
    ...TypeRef
  }
  enumValues(includeDeprecated: true) {
    name
    description
    isDeprecated
    deprecationReason
  }
  possibleTypes {
    ...TypeRef
  }
}

fragment InputValue on __InputValue {
  name
  description
  type {
    ...TypeRef
  }
  defaultValue
  isDeprecated
  deprecationReason
}
"#;

pub const LEGACY_FULL_TYPE: &str = r#"
fragment FullType on __Type {
  kind
  name
  description
  fields {
    name
    description
    args {
      ...InputValue
    }
    type {
      ...TypeRef
    }
    isDeprecated
    deprecationReason
  }
  inputFields {
    ...InputValue
  }
  interfaces {
    ...TypeRef
  }
  enumValues {
    name
    description
    isDeprecated
    deprecationReason
  }
  possibleTypes {
    ...TypeRef
  }
}

fragment InputValue on __InputValue {
  name
  description
  type {
    ...TypeRef
  }
  defaultValue
}
"#;

const SCHEMA_HEAD: &str = r#"
query IntrospectionQuery {
  __schema {
    description
    queryType {
      name
      kind
    }
    mutationType {
      name
      kind
    }
    subscriptionType {
      name
      kind
    }
    types {
      ...FullType
    }
    directives {
      name
      description
      isRepeatable
      locations
      args(includeDeprecated: true) {
        ...InputValue
      }
    }
  }
}
"#;

const LEGACY_SCHEMA_HEAD: &str = r#"
query IntrospectionQuery {
  __schema {
    queryType {
      name
    }
    mutationType {
      name
    }
    subscriptionType {
      name
    }
    types {
      ...FullType
    }
    directives {
      name
      description
      locations
      args {
        ...InputValue
      }
    }
  }
}
"#;

/// The standard introspection query.
pub fn standard() -> String {
    format!("{SCHEMA_HEAD}{FULL_TYPE}{TYPE_REF}")
}

/// The introspection query of older clients (no `includeDeprecated`).
pub fn legacy() -> String {
    format!("{LEGACY_SCHEMA_HEAD}{LEGACY_FULL_TYPE}{TYPE_REF}")
}

/// One document asking `__type(name:)` for each of `names` with the same
/// selection the standard query uses for an entry of `__schema.types`.
/// Response keys are `t0`, `t1`, ...
pub fn by_name(names: &[String]) -> String {
    let mut o = String::from("query TypesByName {\n");
    for (i, n) in names.iter().enumerate() {
        o.push_str(&format!("  t{i}: __type(name: {}) {{\n    ...FullType\n  }}\n", vh_model::types::quote(n)));
    }
    o.push_str("}\n");
    o.push_str(FULL_TYPE);
    o.push_str(TYPE_REF);
    o
}
