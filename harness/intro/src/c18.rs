//! C18 — introspection is consistent and matches the schema actually served.
//!
//! Monitors (see DESIGN.md §2 "C18"):
//!  I1  the JSON answered to the standard introspection query is a
//!      self-consistent schema description (`client::rebuild`);
//!  I2  the client schema rebuilt from it equals the SOURCE the schema was
//!      built from and the model read from `schema.sdl()`; `__type(name:)`
//!      agrees with `__schema.types`; the legacy query (no `includeDeprecated`)
//!      shows the same schema minus the deprecated elements;
//!  I3  under every combination of the request-data flags the static family V1
//!      shows exactly the visible part: no hidden name anywhere in the raw
//!      JSON, every visible reachable element present, I1 on the visible part.

use std::collections::BTreeSet;

use async_graphql::{Request, Response};
use serde_json::{Value as J, json};
use vh_core::{Rng, Run, catch, rng};

use crate::client::{self, Rebuilt};
use crate::tsgen::{self, GenOpts};
use crate::im::*;
use crate::query;
use crate::sdlm;
use crate::vis::{self, Flags};
use crate::witness;

/// One thing the monitor found wrong. `class` is a stable tag (counted in the
/// evidence, used for shrinking); `text` is the exact observation.
#[derive(Clone, Debug)]
pub struct Problem {
    pub class: &'static str,
    pub text: String,
}

fn pb(class: &'static str, text: String) -> Problem {
    Problem { class, text }
}

/// A schema under test: how to execute a request and its exported SDL.
pub struct Subject<'a> {
    pub exec: &'a dyn Fn(Request) -> Response,
    pub sdl: Option<String>,
}

/// What the source says introspection must show.
pub struct Want<'a> {
    pub model: &'a IModel,
    /// types that may or may not be listed (visible but unreachable)
    pub optional: Option<&'a IModel>,
    /// the full source the SDL must describe (None: skip the SDL leg)
    pub sdl_source: Option<&'a IModel>,
    /// compare description texts on the SDL leg
    pub sdl_descriptions: bool,
    pub flags: Option<Flags>,
    /// type names that must answer `__type(name:) = null`
    pub must_be_unknown: Vec<String>,
    /// elements (`T.f`, `T.f(a)`, input field `T.x`) the source leaves open: taken as introspection shows them
    pub optional_paths: Option<&'a BTreeSet<String>>,
}

#[derive(Default)]
pub struct Stats {
    pub refs_checked: u64,
    pub types_compared: u64,
    pub by_name_compared: u64,
    pub by_name_null: u64,
    pub legacy_compared: u64,
    pub sdl_compared: u64,
    pub sdl_unparseable: u64,
    pub interface_interfaces_null: u64,
    pub truncated_refs: u64,
    pub max_chain: usize,
    pub json_bytes: u64,
    pub requests: u64,
    pub subjects_not_compared_truncated: u64,
    pub directives_compared: u64,
    pub directive_args_compared: u64,
    pub hidden_directives_checked: u64,
    /// depths of the interface hierarchies of the introspected schemas (see `interface_chain_depth`)
    pub chain_depths: BTreeSet<usize>,
    pub subjects_with_chain_depth_ge3: u64,
    /// (context, object, hidden interface) triples where the hidden interface has a visible interface above it
    pub hidden_intermediate_interfaces: u64,
}

/// Length (number of interfaces) of the longest path object -> interface -> ... that follows *nearest* declared
/// interfaces, i.e. the depth of the interface hierarchy: an interface counts 1 + the deepest interface among
/// those it implements.
pub fn interface_chain_depth(m: &IModel) -> usize {
    fn depth(m: &IModel, n: &str, guard: usize) -> usize {
        if guard == 0 {
            return 0;
        }
        1 + m.implements_of(n).iter().map(|i| depth(m, i, guard - 1)).max().unwrap_or(0)
    }
    m.types
        .values()
        .filter(|t| matches!(t.kind, IKind::Interface { .. }))
        .map(|t| depth(m, &t.name, 16))
        .max()
        .unwrap_or(0)
}

fn run_query(s: &Subject, text: String, flags: Option<Flags>, st: &mut Stats) -> Result<J, Problem> {
    let mut req = Request::new(text);
    if let Some(f) = flags {
        req = req.data(f);
    }
    st.requests += 1;
    let resp = match catch(|| (s.exec)(req)) {
        Ok(r) => r,
        Err(p) => return Err(pb("panic", format!("executing the introspection query panicked: {p}"))),
    };
    if !resp.errors.is_empty() {
        let e: Vec<String> = resp.errors.iter().map(|e| e.message.clone()).collect();
        return Err(pb("introspection_error", format!("the introspection query answered errors: {e:?}")));
    }
    match serde_json::to_value(&resp.data) {
        Ok(j) => Ok(j),
        Err(e) => Err(pb("introspection_error", format!("response data is not JSON: {e}"))),
    }
}

/// Remove what `includeDeprecated: false` must remove from a standard answer
/// and the keys the legacy query does not ask for.
fn strip_for_legacy(schema: &J) -> J {
    fn input_values(j: &J) -> J {
        match j.as_array() {
            None => j.clone(),
            Some(a) => J::Array(
                a.iter()
                    .filter(|x| x["isDeprecated"] != J::Bool(true))
                    .map(|x| {
                        let mut o = x.as_object().cloned().unwrap_or_default();
                        o.remove("isDeprecated");
                        o.remove("deprecationReason");
                        J::Object(o)
                    })
                    .collect(),
            ),
        }
    }
    fn ty(t: &J) -> J {
        let mut o = t.as_object().cloned().unwrap_or_default();
        o.remove("specifiedByURL");
        o.remove("isOneOf");
        if let Some(fs) = t["fields"].as_array() {
            o.insert(
                "fields".into(),
                J::Array(
                    fs.iter()
                        .filter(|f| f["isDeprecated"] != J::Bool(true))
                        .map(|f| {
                            let mut fo = f.as_object().cloned().unwrap_or_default();
                            fo.insert("args".into(), input_values(&f["args"]));
                            J::Object(fo)
                        })
                        .collect(),
                ),
            );
        }
        if t["inputFields"].is_array() {
            o.insert("inputFields".into(), input_values(&t["inputFields"]));
        }
        if let Some(vs) = t["enumValues"].as_array() {
            o.insert("enumValues".into(), J::Array(vs.iter().filter(|v| v["isDeprecated"] != J::Bool(true)).cloned().collect()));
        }
        J::Object(o)
    }
    let mut o = serde_json::Map::new();
    for k in ["queryType", "mutationType", "subscriptionType"] {
        o.insert(k.into(), if schema[k].is_null() { J::Null } else { json!({"name": schema[k]["name"]}) });
    }
    o.insert("types".into(), J::Array(schema["types"].as_array().map(|a| a.iter().map(ty).collect()).unwrap_or_default()));
    o.insert(
        "directives".into(),
        J::Array(
            schema["directives"]
                .as_array()
                .map(|a| {
                    a.iter()
                        .map(|d| {
                            json!({"name": d["name"], "description": d["description"], "locations": d["locations"],
                                   "args": input_values(&d["args"])})
                        })
                        .collect()
                })
                .unwrap_or_default(),
        ),
    );
    J::Object(o)
}

/// First place where two JSON values differ (for messages).
fn json_diff(a: &J, b: &J, path: String) -> Option<String> {
    match (a, b) {
        (J::Object(x), J::Object(y)) => {
            for (k, v) in x {
                match y.get(k) {
                    None => return Some(format!("{path}.{k}: present on the left only")),
                    Some(w) => {
                        if let Some(d) = json_diff(v, w, format!("{path}.{k}")) {
                            return Some(d);
                        }
                    }
                }
            }
            for k in y.keys() {
                if !x.contains_key(k) {
                    return Some(format!("{path}.{k}: present on the right only"));
                }
            }
            None
        }
        (J::Array(x), J::Array(y)) => {
            if x.len() != y.len() {
                let nx: Vec<&J> = x.iter().map(|e| &e["name"]).collect();
                let ny: Vec<&J> = y.iter().map(|e| &e["name"]).collect();
                return Some(format!("{path}: {} entries {nx:?} vs {} entries {ny:?}", x.len(), y.len()));
            }
            for (i, (v, w)) in x.iter().zip(y).enumerate() {
                let label = v["name"].as_str().map(|s| s.to_string()).unwrap_or(i.to_string());
                if let Some(d) = json_diff(v, w, format!("{path}[{label}]")) {
                    return Some(d);
                }
            }
            None
        }
        _ => {
            if a == b {
                None
            } else {
                Some(format!(
                    "{path}: {} vs {}",
                    vh_core::run::truncate(&a.to_string(), 100),
                    vh_core::run::truncate(&b.to_string(), 100)
                ))
            }
        }
    }
}

/// Identifier-like runs of the text that contain `zz` in any letter case.
fn zz_words(text: &str) -> BTreeSet<String> {
    let mut out = BTreeSet::new();
    let mut cur = String::new();
    for c in text.chars().chain(std::iter::once(' ')) {
        if c.is_ascii_alphanumeric() || c == '_' {
            cur.push(c);
        } else {
            if cur.to_ascii_lowercase().contains("zz") {
                out.insert(cur.clone());
            }
            cur.clear();
        }
    }
    out
}

/// Copy the element at `path` from `shown` into `expected` (if `shown` has it).
fn adopt_optional(expected: &mut IModel, shown: &IModel, path: &str) {
    let Some((tn, rest)) = path.split_once('.') else { return };
    let (fname, aname) = match rest.split_once('(') {
        Some((f, a)) => (f, Some(a.trim_end_matches(')'))),
        None => (rest, None),
    };
    let (Some(et), Some(st)) = (expected.types.get_mut(tn), shown.types.get(tn)) else { return };
    match (&mut et.kind, &st.kind) {
        (IKind::Object { fields: ef, .. }, IKind::Object { fields: sf, .. })
        | (IKind::Interface { fields: ef, .. }, IKind::Interface { fields: sf, .. }) => {
            let Some(sfd) = sf.iter().find(|f| f.name == fname) else { return };
            match aname {
                None => {
                    if !ef.iter().any(|f| f.name == fname) {
                        ef.push(sfd.clone());
                    }
                }
                Some(a) => {
                    if let (Some(efd), Some(sa)) = (ef.iter_mut().find(|f| f.name == fname), sfd.args.iter().find(|x| x.name == a)) {
                        if !efd.args.iter().any(|x| x.name == a) {
                            efd.args.push(sa.clone());
                        }
                    }
                }
            }
        }
        (IKind::Input { fields: ef, .. }, IKind::Input { fields: sf, .. }) => {
            if let Some(sa) = sf.iter().find(|x| x.name == fname) {
                if !ef.iter().any(|x| x.name == fname) {
                    ef.push(sa.clone());
                }
            }
        }
        _ => {}
    }
}

/// What `verify` found: the problems, the rebuilt client model and the raw
/// text of the standard answer (for the name scan of the caller).
pub struct Verified {
    pub problems: Vec<Problem>,
    pub rebuilt: Option<Rebuilt>,
    pub raw: String,
}

/// Run every monitor on one subject.
pub fn verify(s: &Subject, want: &Want, st: &mut Stats) -> Verified {
    let mut problems: Vec<Problem> = vec![];
    // ---- standard introspection query
    let data = match run_query(s, query::standard(), want.flags, st) {
        Ok(d) => d,
        Err(p) => return Verified { problems: vec![p], rebuilt: None, raw: String::new() },
    };
    let raw = data.to_string();
    st.json_bytes += raw.len() as u64;
    let schema = &data["__schema"];
    if !schema.is_object() {
        let p = pb("introspection_error", format!("data.__schema is {}", vh_core::run::truncate(&schema.to_string(), 100)));
        return Verified { problems: vec![p], rebuilt: None, raw };
    }
    // ---- I1
    let rb = client::rebuild(schema, false);
    st.refs_checked += rb.refs_checked;
    st.interface_interfaces_null += rb.interface_interfaces_null;
    st.truncated_refs += rb.truncated_refs;
    st.max_chain = st.max_chain.max(rb.max_chain);
    let depth = interface_chain_depth(&rb.model);
    st.chain_depths.insert(depth);
    if depth >= 3 {
        st.subjects_with_chain_depth_ge3 += 1;
    }
    for e in &rb.errors {
        let class = if e.contains(" lists interface ") {
            "i1_transitive_interface"
        } else if e.contains("does not list") {
            "i1_dangling_reference"
        } else if e.contains("possibleTypes lists") {
            "i1_possible_types"
        } else if e.contains("must be null for this kind") || e.contains("instead of a list") {
            "i1_kind_fields"
        } else {
            "i1_other"
        };
        problems.push(pb(class, format!("I1 {e}")));
    }
    // ---- I2: against the source
    let mut expected = want.model.clone();
    if let Some(opt) = want.optional {
        for (n, t) in &opt.types {
            if rb.model.types.contains_key(n) {
                expected.add(t.clone());
            }
        }
    }
    if let Some(paths) = want.optional_paths {
        for p in paths {
            adopt_optional(&mut expected, &rb.model, p);
        }
    }
    // a reference deeper than the query's ofType nesting cannot be rebuilt: nothing to compare then
    let d = if rb.truncated_refs > 0 {
        st.subjects_not_compared_truncated += 1;
        vec![]
    } else {
        st.types_compared += expected.types.len() as u64;
        diff(&expected, "source", &rb.model, "introspection", &DiffOpts::default())
    };
    for e in d {
        let class = if e.contains("implemented interfaces") {
            "i2_interfaces"
        } else if e.contains("default value") {
            "i2_default_value"
        } else if e.contains("description") {
            "i2_description"
        } else if e.contains("deprecated") {
            "i2_deprecation"
        } else if e.contains("missing in introspection") {
            "i2_missing_in_introspection"
        } else if e.contains("missing in source") {
            "i2_extra_in_introspection"
        } else {
            "i2_other"
        };
        problems.push(pb(class, format!("I2 {e}")));
    }
    // ---- __type(name:) for every listed type, and for names that must be unknown
    let mut names: Vec<String> =
        schema["types"].as_array().map(|a| a.iter().filter_map(|t| t["name"].as_str().map(|s| s.to_string())).collect()).unwrap_or_default();
    let listed = names.len();
    names.push("NoSuchTypeAnywhere".to_string());
    names.extend(want.must_be_unknown.iter().cloned());
    if let Some(opt) = want.optional {
        // an optional type that is not listed must be unknown to __type(name:) as well
        names.extend(opt.types.keys().filter(|n| !rb.model.types.contains_key(*n)).cloned());
    }
    match run_query(s, query::by_name(&names), want.flags, st) {
        Err(p) => problems.push(p),
        Ok(d) => {
            for (i, n) in names.iter().enumerate() {
                let got = &d[format!("t{i}")];
                if i < listed {
                    let entry = client::entry(schema, n).cloned().unwrap_or(J::Null);
                    st.by_name_compared += 1;
                    if let Some(x) = json_diff(&entry, got, String::new()) {
                        problems.push(pb(
                            "i2_type_by_name",
                            format!("I2 __type(name: {n:?}) differs from the __schema.types entry at {x}"),
                        ));
                    }
                } else {
                    st.by_name_null += 1;
                    if !got.is_null() {
                        problems.push(pb(
                            "i3_type_by_name_hidden",
                            format!(
                                "__type(name: {n:?}) answers {} although __schema.types does not list it",
                                vh_core::run::truncate(&got.to_string(), 120)
                            ),
                        ));
                    }
                }
            }
        }
    }
    // ---- legacy query: same schema minus deprecated elements
    match run_query(s, query::legacy(), want.flags, st) {
        Err(p) => problems.push(p),
        Ok(d) => {
            st.legacy_compared += 1;
            let want_legacy = strip_for_legacy(schema);
            if let Some(x) = json_diff(&want_legacy, &d["__schema"], "__schema".into()) {
                problems.push(pb(
                    "i2_legacy_query",
                    format!("I2 legacy query (includeDeprecated omitted) vs standard answer minus deprecated elements: {x}"),
                ));
            }
        }
    }
    // ---- SDL leg
    if let (Some(src), Some(sdl)) = (want.sdl_source, &s.sdl) {
        match sdlm::from_sdl(sdl) {
            Err(_) => st.sdl_unparseable += 1,
            Ok(sm) => {
                st.sdl_compared += 1;
                let o = DiffOpts { descriptions: want.sdl_descriptions, ..Default::default() };
                for e in diff(src, "source", &sm, "SDL", &o) {
                    let class = if e.contains("implemented interfaces") { "sdl_interfaces" } else { "sdl_other" };
                    problems.push(pb(class, format!("I2 {e}")));
                }
            }
        }
    }
    Verified { problems, rebuilt: Some(rb), raw }
}

fn flush_stats(run: &Run, st: &Stats) {
    run.count("type_references_resolved", st.refs_checked);
    run.count("types_compared_with_source", st.types_compared);
    run.count("type_by_name_entries_compared", st.by_name_compared);
    run.count("type_by_name_unknown_checked", st.by_name_null);
    run.count("legacy_queries_compared", st.legacy_compared);
    run.count("sdl_models_compared", st.sdl_compared);
    run.count("sdl_unparseable_skipped", st.sdl_unparseable);
    run.count("interface_entries_with_null_interfaces", st.interface_interfaces_null);
    run.count("type_references_truncated_by_query_depth", st.truncated_refs);
    run.count("introspection_json_bytes", st.json_bytes);
    run.count("requests_executed", st.requests);
    run.count("subjects_not_compared_because_truncated", st.subjects_not_compared_truncated);
    run.seen("deepest_type_reference_levels_per_shard", &st.max_chain.to_string());
    run.count("custom_directives_compared", st.directives_compared);
    run.count("custom_directive_arguments_compared", st.directive_args_compared);
    run.count("hidden_custom_directives_checked_absent", st.hidden_directives_checked);
    run.count("subjects_with_interface_chain_depth_ge3", st.subjects_with_chain_depth_ge3);
    run.count("hidden_intermediate_interface_cases", st.hidden_intermediate_interfaces);
    for d in &st.chain_depths {
        run.seen("interface_chain_depth_seen", &d.to_string());
    }
    run.evals(st.requests);
}

pub fn classes(ps: &[Problem]) -> Vec<&'static str> {
    let mut c: Vec<&'static str> = ps.iter().map(|p| p.class).collect();
    c.sort();
    c.dedup();
    c
}

pub fn texts(ps: &[Problem]) -> Vec<String> {
    ps.iter().map(|p| p.text.clone()).collect()
}

// -------------------------------------------------------------------- static V1

/// Check a static schema whose elements carry visibility predicates under one context.
pub fn check_static(
    exec: &dyn Fn(Request) -> Response,
    sdl: Option<String>,
    vm: &vis::Vm,
    f: Flags,
    st: &mut Stats,
) -> (Vec<Problem>, J) {
    let exp = vm.restrict(f);
    let sub = Subject { exec, sdl };
    let must_be_unknown: Vec<String> = vm
        .full
        .types
        .keys()
        .filter(|n| !exp.model.types.contains_key(*n) && !exp.optional.types.contains_key(*n))
        .cloned()
        .collect();
    let want = Want {
        model: &exp.model,
        optional: Some(&exp.optional),
        sdl_source: Some(&vm.full),
        sdl_descriptions: true,
        flags: Some(f),
        must_be_unknown,
        optional_paths: Some(&exp.optional_paths),
    };
    let v = verify(&sub, &want, st);
    let mut problems = v.problems;
    let mut seen_words = BTreeSet::new();
    if v.rebuilt.is_some() {
        seen_words = zz_words(&v.raw);
        for w in &seen_words {
            if !exp.visible_sentinels.contains(w) {
                let how = if exp.hidden.contains(w) { "hidden in this context" } else { "not a visible element of this context" };
                problems.push(pb("i3_hidden_name_in_json", format!("I3 the response contains {w:?}, which is {how}")));
            }
        }
        for w in &exp.visible_sentinels {
            // only names of reachable elements must show
            if !seen_words.contains(w) && model_mentions(&exp.model, w) {
                problems.push(pb("i3_visible_name_missing", format!("I3 the response lacks the visible element {w:?}")));
            }
        }
    }
    // custom directive definitions: exactly the visible ones, each with exactly its visible arguments
    // (which built-in directives are listed is the server's choice)
    if let Some(rb) = &v.rebuilt {
        const BUILTIN: [&str; 5] = ["skip", "include", "deprecated", "specifiedBy", "oneOf"];
        for d in rb.directives.iter().filter(|d| !BUILTIN.contains(&d.as_str())) {
            st.directives_compared += 1;
            match exp.directives.get(d) {
                None => {
                    let how = if vm.dirs.iter().any(|x| &x.name == d) { "hidden in this context" } else { "not defined by the source" };
                    problems.push(pb("i3_hidden_directive_listed", format!("I3 __schema.directives lists @{d}, which is {how}")));
                }
                Some(want_args) => {
                    let got: BTreeSet<String> = rb.directive_args.get(d).map(|a| a.iter().cloned().collect()).unwrap_or_default();
                    st.directive_args_compared += want_args.len().max(got.len()) as u64;
                    for a in got.difference(want_args) {
                        let how = if vm.dirs.iter().any(|x| &x.name == d && x.args.contains(a)) {
                            "hidden in this context"
                        } else {
                            "not defined by the source"
                        };
                        problems.push(pb("i3_hidden_directive_argument_listed", format!("I3 @{d} lists the argument {a:?}, which is {how}")));
                    }
                    for a in want_args.difference(&got) {
                        problems.push(pb("i2_directive_argument_missing", format!("I2 @{d} lacks the visible argument {a:?}")));
                    }
                }
            }
        }
        for d in exp.directives.keys() {
            if !rb.directives.contains(d) {
                problems.push(pb("i2_directive_missing", format!("I2 __schema.directives lacks the visible custom directive @{d}")));
            }
        }
        st.hidden_directives_checked += (vm.dirs.len() - exp.directives.len()) as u64;
    }
    // how often this context has a hidden interface between a visible interface and a visible object
    for t in exp.model.types.values().filter(|t| matches!(t.kind, IKind::Object { .. })) {
        for mid in vm.full.implements_of(&t.name) {
            if exp.hidden.contains(mid) && vm.full.implements_of(mid).iter().any(|up| exp.model.types.contains_key(up)) {
                st.hidden_intermediate_interfaces += 1;
            }
        }
    }
    let info = json!({
        "flags": f.label(),
        "hidden_names": exp.hidden.len(),
        "visible_sentinels_seen": seen_words.len(),
        "types_expected": exp.model.types.len(),
        "types_optional": exp.optional.types.keys().collect::<Vec<_>>(),
    });
    (problems, info)
}

pub fn sdl_opts() -> async_graphql::SDLExportOptions {
    async_graphql::SDLExportOptions::new().include_specified_by()
}

pub fn check_v1_context(schema: &vis::V1Schema, vm: &vis::Vm, f: Flags, st: &mut Stats) -> (Vec<Problem>, J) {
    let exec = |r: Request| vh_core::vsched::block_on(schema.execute(r));
    let sdl = if f == Flags::from_bits(15) { Some(schema.sdl_with_options(sdl_opts())) } else { None };
    check_static(&exec, sdl, vm, f, st)
}

fn model_mentions(m: &IModel, name: &str) -> bool {
    m.types.values().any(|t| {
        t.name == name
            || match &t.kind {
                IKind::Object { fields, .. } | IKind::Interface { fields, .. } => {
                    fields.iter().any(|f| f.name == name || f.args.iter().any(|a| a.name == name))
                }
                IKind::Enum { values } => values.iter().any(|v| v.name == name),
                IKind::Input { fields, .. } => fields.iter().any(|a| a.name == name),
                _ => false,
            }
    })
}

fn static_part(run: &Run) {
    // visibility rules on custom directive definitions and their arguments
    let dirvis = run.feature("custom_directive_visibility");
    let vm = vis::hand_model(dirvis);
    if let Err(e) = vm.check_naming() {
        run.inconclusive(&format!("harness error: V1 hand model breaks its naming rule: {e}"));
        return;
    }
    let schema = match catch(|| vis::schema(dirvis)) {
        Ok(s) => s,
        Err(p) => {
            run.violation("C18-V1|build-panic", &format!("building the static family V1 panicked: {p}"), json!({"flavour": "static-V1"}));
            return;
        }
    };
    let mut st = Stats::default();
    for bits in 0u8..16 {
        let f = Flags::from_bits(bits);
        let exp = vm.restrict(f);
        let mut d = vis::dangling(&exp.model);
        d.extend(exp.optional_paths.iter().map(|p| format!("{p} has a hidden type")));
        if !d.is_empty() {
            run.inconclusive(&format!("harness error: V1 hand model dangles under {}: {d:?}", f.label()));
            return;
        }
        let (problems, info) = check_v1_context(&schema, &vm, f, &mut st);
        run.count("static_contexts_checked", 1);
        run.count("hidden_names_scanned_for", exp.hidden.len() as u64);
        run.seen("visibility_context", &f.label());
        run.nontrivial(rng::mix(&[18, 1000 + bits as u64]));
        if bits == 0 || bits == 5 || bits == 15 {
            run.sample(json!({"flavour": "static-V1", "context": info, "problems": texts(&problems)}));
        }
        if !problems.is_empty() {
            for c in classes(&problems) {
                run.count(&format!("problem_{c}"), 1);
            }
            run.violation(
                &format!("C18-V1|{}|{}", f.label(), problems[0].text),
                &format!("static family V1 under [{}]: {} problem(s): {}", f.label(), problems.len(), texts(&problems).join(" || ")),
                json!({"flavour": "static-V1", "flags_bits": bits, "flags": f.label(), "custom_directive_visibility": dirvis,
                       "problems": texts(&problems)}),
            );
        }
    }
    flush_stats(run, &st);
    run.exhaustive(true);
    run.extra(
        "exhaustive_over",
        json!("the 16 combinations of the four request-data flags of the static family V1; dynamic schemas are sampled"),
    );
}

// ---------------------------------------------------------------------- dynamic

pub fn check_dynamic(m: &IModel, hostile: bool, st: &mut Stats) -> Result<Vec<Problem>, String> {
    let schema = match catch(|| tsgen::builder(m).finish()) {
        Ok(Ok(s)) => s,
        Ok(Err(e)) => return Err(format!("build error: {e}")),
        Err(p) => return Ok(vec![pb("panic", format!("building a valid dynamic schema panicked: {p}"))]),
    };
    let exec = |r: Request| vh_core::vsched::block_on(schema.execute(r));
    let sdl = if hostile {
        None
    } else {
        catch(|| schema.sdl_with_options(async_graphql::SDLExportOptions::new().include_specified_by())).ok()
    };
    let sub = Subject { exec: &exec, sdl };
    // what nothing refers to may be listed or not
    let reach = tsgen::reachable(m);
    let mut expected = IModel { query: m.query.clone(), mutation: m.mutation.clone(), subscription: m.subscription.clone(), ..Default::default() };
    let mut optional = IModel::default();
    for (n, t) in &m.types {
        if reach.contains(n) || is_builtin_scalar(n) {
            expected.add(t.clone());
        } else {
            optional.add(t.clone());
        }
    }
    let want = Want {
        model: &expected,
        optional: Some(&optional),
        sdl_source: if hostile { None } else { Some(m) },
        sdl_descriptions: true,
        flags: None,
        must_be_unknown: vec![],
        optional_paths: None,
    };
    Ok(verify(&sub, &want, st).problems)
}

fn dynamic_part(run: &Run) {
    let total = run.scale(1_500, 120_000);
    let shards: u64 = if run.is_thorough() { 16 } else { 8 };
    let inherit = run.feature("dynamic_interface_inheritance");
    let later_pass = run.feature("interface_listed_by_later_pass");
    std::thread::scope(|sc| {
        for shard in 0..shards {
            sc.spawn(move || {
                let mut r = Rng::new(rng::mix(&[run.seed, 18, shard]));
                let mut st = Stats::default();
                let mut i = shard;
                while i < total {
                    i += shards;
                    if run.elapsed_s() > 420.0 {
                        run.count("dynamic_cases_skipped_by_time_budget", 1);
                        continue;
                    }
                    let hostile = r.chance(1, 3);
                    let o = GenOpts {
                        hostile_text: hostile,
                        interface_inheritance: inherit,
                        subscription: true,
                        later_pass_interfaces: later_pass,
                        orphans: true,
                    };
                    let m = tsgen::gen_model(&mut r, &o);
                    let h = rng::hash_str(&m.to_json().to_string());
                    let problems = match check_dynamic(&m, hostile, &mut st) {
                        Ok(p) => p,
                        Err(e) => {
                            run.count("dynamic_schema_build_failed", 1);
                            run.sample_upto(8, json!({"dynamic_schema_build_failed": e, "model": m.to_json()}));
                            continue;
                        }
                    };
                    run.count("dynamic_schemas_checked", 1);
                    if hostile {
                        run.count("dynamic_schemas_with_hostile_text", 1);
                    }
                    let feats = m.features();
                    for f in &feats {
                        run.seen("schema_feature", f);
                    }
                    if feats.len() >= 6 {
                        run.nontrivial(h);
                    }
                    run.sample_upto(
                        6,
                        json!({"flavour": "dynamic", "hostile_text": hostile, "features": feats,
                               "types": m.types.len(), "sdl_excerpt": vh_core::run::truncate(&m_sdl(&m), 400),
                               "problems": texts(&problems)}),
                    );
                    if !problems.is_empty() {
                        for c in classes(&problems) {
                            run.count(&format!("problem_{c}"), 1);
                        }
                        // shrinking re-executes the case many times: only for the first few
                        let (small, sp) = if SHRUNK.fetch_add(1, std::sync::atomic::Ordering::Relaxed) < 6 {
                            shrink(&m, hostile, &problems)
                        } else {
                            (m.clone(), problems.clone())
                        };
                        run.violation(
                            &format!("C18-dyn:{h:016x}"),
                            &format!(
                                "dynamic schema: {} problem(s) [{}]; reduced to {} types: {}",
                                problems.len(),
                                classes(&problems).join(","),
                                small.types.len() - 5,
                                texts(&sp).join(" || ")
                            ),
                            json!({"flavour": "dynamic", "hostile_text": hostile, "model": small.to_json(),
                                   "problems": texts(&sp), "original_model": m.to_json(), "original_problems": texts(&problems)}),
                        );
                    }
                }
                flush_stats(run, &st);
            });
        }
    });
}

static SHRUNK: std::sync::atomic::AtomicU64 = std::sync::atomic::AtomicU64::new(0);

fn m_sdl(m: &IModel) -> String {
    // compact rendering for samples only
    let mut o = String::new();
    for t in m.types.values() {
        if is_builtin_scalar(&t.name) {
            continue;
        }
        match &t.kind {
            IKind::Scalar { .. } => o.push_str(&format!("scalar {} ", t.name)),
            IKind::Enum { values } => {
                o.push_str(&format!("enum {} {{{}}} ", t.name, values.iter().map(|v| v.name.as_str()).collect::<Vec<_>>().join(" ")))
            }
            IKind::Union { members } => o.push_str(&format!("union {} = {} ", t.name, members.join("|"))),
            IKind::Object { fields, implements } | IKind::Interface { fields, implements } => {
                let kw = if matches!(t.kind, IKind::Object { .. }) { "type" } else { "interface" };
                let imp = if implements.is_empty() { String::new() } else { format!(" implements {}", implements.join("&")) };
                o.push_str(&format!(
                    "{kw} {}{imp} {{{}}} ",
                    t.name,
                    fields.iter().map(|f| format!("{}:{}", f.name, f.ty)).collect::<Vec<_>>().join(" ")
                ));
            }
            IKind::Input { fields, .. } => o.push_str(&format!(
                "input {} {{{}}} ",
                t.name,
                fields.iter().map(|f| format!("{}:{}", f.name, f.ty)).collect::<Vec<_>>().join(" ")
            )),
        }
    }
    o
}

/// Greedy reduction of a failing dynamic model: drop types, fields, arguments,
/// texts while the same problem class is still reported.
fn shrink(m: &IModel, hostile: bool, problems: &[Problem]) -> (IModel, Vec<Problem>) {
    let target = problems[0].class;
    let still = |c: &IModel| -> Option<Vec<Problem>> {
        if !vis::dangling(c).is_empty() {
            return None;
        }
        // keep everything reachable, otherwise "missing in introspection" would be our own doing
        let reach = tsgen::reachable(c);
        if c.types.keys().any(|n| !is_builtin_scalar(n) && !reach.contains(n) && !n.starts_with("Orphan")) {
            return None;
        }
        let mut st = Stats::default();
        match check_dynamic(c, hostile, &mut st) {
            Ok(p) if p.iter().any(|x| x.class == target) => Some(p),
            _ => None,
        }
    };
    let mut cur = m.clone();
    let mut cur_p = problems.to_vec();
    let mut budget = 400;
    let mut progress = true;
    while progress && budget > 0 {
        progress = false;
        // drop whole types
        let names: Vec<String> = cur.types.keys().filter(|n| !is_builtin_scalar(n) && **n != cur.query).cloned().collect();
        for n in names {
            if budget == 0 {
                break;
            }
            let mut c = cur.clone();
            c.types.remove(&n);
            if c.mutation.as_deref() == Some(&n) {
                c.mutation = None;
            }
            if c.subscription.as_deref() == Some(&n) {
                c.subscription = None;
            }
            // remove every mention
            for t in c.types.values_mut() {
                match &mut t.kind {
                    IKind::Object { fields, implements } | IKind::Interface { fields, implements } => {
                        implements.retain(|i| i != &n);
                        fields.retain(|f| f.ty.name() != n);
                        for f in fields.iter_mut() {
                            f.args.retain(|a| a.ty.name() != n);
                        }
                    }
                    IKind::Union { members } => members.retain(|x| x != &n),
                    IKind::Input { fields, .. } => fields.retain(|a| a.ty.name() != n),
                    _ => {}
                }
            }
            if c.types.values().any(|t| match &t.kind {
                IKind::Object { fields, .. } | IKind::Interface { fields, .. } => fields.is_empty(),
                IKind::Union { members } => members.is_empty(),
                IKind::Input { fields, .. } => fields.is_empty(),
                _ => false,
            }) {
                continue;
            }
            budget -= 1;
            if let Some(p) = still(&c) {
                cur = c;
                cur_p = p;
                progress = true;
            }
        }
        // drop single fields / args / decorations
        let names: Vec<String> = cur.types.keys().cloned().collect();
        for n in names {
            let nf = match &cur.types[&n].kind {
                IKind::Object { fields, .. } | IKind::Interface { fields, .. } => fields.len(),
                IKind::Input { fields, .. } => fields.len(),
                IKind::Enum { values } => values.len(),
                _ => 0,
            };
            for k in (0..nf).rev() {
                if budget == 0 {
                    break;
                }
                let mut c = cur.clone();
                let mut removed_name = String::new();
                match &mut c.types.get_mut(&n).unwrap().kind {
                    IKind::Object { fields, .. } | IKind::Interface { fields, .. } => {
                        if fields.len() > 1 {
                            removed_name = fields.remove(k).name;
                        }
                    }
                    IKind::Input { fields, .. } => {
                        if fields.len() > 1 {
                            fields.remove(k);
                        }
                    }
                    IKind::Enum { values } => {
                        if values.len() > 1 {
                            values.remove(k);
                        }
                    }
                    _ => {}
                }
                if !removed_name.is_empty() {
                    // an interface field leaves its implementors too (and the other way round is harmless)
                    let is_if = matches!(c.types[&n].kind, IKind::Interface { .. });
                    if !is_if {
                        let needed = c.implements_of(&n).iter().any(|i| m_has_field(&c, i, &removed_name));
                        if needed {
                            continue;
                        }
                    }
                }
                if c == cur {
                    continue;
                }
                budget -= 1;
                if let Some(p) = still(&c) {
                    cur = c;
                    cur_p = p;
                    progress = true;
                }
            }
        }
    }
    // strip texts / args / defaults in one go if possible
    let mut c = cur.clone();
    for t in c.types.values_mut() {
        t.desc = None;
        match &mut t.kind {
            IKind::Object { fields, .. } | IKind::Interface { fields, .. } => {
                for f in fields {
                    f.desc = None;
                    f.dep = None;
                    f.args.clear();
                }
            }
            IKind::Input { fields, .. } => {
                for f in fields {
                    f.desc = None;
                    f.dep = None;
                    f.default = None;
                }
            }
            IKind::Enum { values } => {
                for v in values {
                    v.desc = None;
                    v.dep = None;
                }
            }
            _ => {}
        }
    }
    if let Some(p) = still(&c) {
        cur = c;
        cur_p = p;
    }
    (cur, cur_p)
}

fn m_has_field(m: &IModel, ty: &str, f: &str) -> bool {
    m.fields_of(ty).iter().any(|x| x.name == f)
}

// ---------------------------------------------------------------------- replay

fn replay(run: &Run, path: &std::path::Path) {
    let text = match std::fs::read_to_string(path) {
        Ok(t) => t,
        Err(e) => {
            run.inconclusive(&format!("cannot read replay {}: {e}", path.display()));
            return;
        }
    };
    let j: J = match serde_json::from_str(&text) {
        Ok(j) => j,
        Err(e) => {
            run.inconclusive(&format!("replay is not JSON: {e}"));
            return;
        }
    };
    let case = if j["case"].is_object() { &j["case"] } else { &j };
    let mut st = Stats::default();
    let problems = match case["flavour"].as_str() {
        Some("dynamic") => {
            let m = match IModel::from_json(&case["model"]) {
                Ok(m) => m,
                Err(e) => {
                    run.inconclusive(&format!("replay model unreadable: {e}"));
                    return;
                }
            };
            match check_dynamic(&m, case["hostile_text"].as_bool().unwrap_or(false), &mut st) {
                Ok(p) => p,
                Err(e) => {
                    run.inconclusive(&format!("replay schema does not build: {e}"));
                    return;
                }
            }
        }
        Some("static-V1") => {
            let dirvis = case["custom_directive_visibility"].as_bool().unwrap_or(true);
            let vm = vis::hand_model(dirvis);
            let schema = vis::schema(dirvis);
            let f = Flags::from_bits(case["flags_bits"].as_u64().unwrap_or(0) as u8);
            check_v1_context(&schema, &vm, f, &mut st).0
        }
        Some("witness") => witness::run_one(case["witness"].as_str().unwrap_or(""), &mut st).unwrap_or_default(),
        other => {
            run.inconclusive(&format!("replay flavour {other:?} unknown"));
            return;
        }
    };
    run.evals(st.requests);
    if problems.is_empty() {
        println!("REPLAY: no problem observed");
    } else {
        for p in &problems {
            println!("REPLAY: [{}] {}", p.class, p.text);
        }
        run.violation("C18-replay", &format!("replayed case still fails: {}", texts(&problems).join(" || ")), case.clone());
    }
}

pub fn main() {
    let mut run = Run::from_args(
        "exploration",
        "static family V1 (hand-written derive schema; visibility predicates read request data; nested derive interfaces \
         four levels deep with the objects registered under the innermost one only, chains whose middle interface is \
         hidden by a predicate / always; custom directive definitions with visibility rules) introspected under all 16 \
         flag combinations; random dynamic type systems (descriptions, deprecations with/without reason on fields, \
         arguments, input fields and enum values, default values, specifiedByURL, oneOf, interface inheritance DAGs and \
         straight chains of 3-5 interfaces, \
         unions, mutation/subscription roots, every type reachable through a randomly chosen route) built through \
         async_graphql::dynamic. Each subject is asked the standard introspection query, the legacy query, and \
         __type(name:) for every listed type through the real Schema::execute; the JSON is rebuilt into a client \
         schema and compared with the source model and the model read from schema.sdl(). Non-trivial = schema shows at \
         least 6 distinct constructs; distinct by hash of the source model (static: per context)",
    );
    run.assume("R2 (harness/r2) reads SDL documents and GraphQL value literals per the October-2021 grammar");
    run.assume("the hand model of V1 (intro/src/vis.rs) transcribes the derive attributes of the same file; its naming rule (hidden-able names contain 'zz', nothing else does) is checked at start-up");
    run.assume("which built-in scalars, introspection types and directives are listed, and list orders, are the server's choice and not compared");
    run.assume("a type that is visible but reachable only through hidden elements may be listed or not");
    run.assume("`interfaces: null` on an INTERFACE entry is read as the empty list (clients do the same); it is an error only when the source declares `implements`");
    run.assume("SDL leg only on schemas whose descriptions and reasons are plain text (escaping of SDL text is property C17)");
    if let Some(p) = run.replay.clone() {
        replay(&run, &p);
        run.finish_code_exit();
    }
    run.set_floors(run.scale(1500, 40_000), run.scale(300, 10_000));
    run.set_max_samples(6);
    for c in [
        "static_contexts_checked",
        "dynamic_schemas_checked",
        "type_references_resolved",
        "types_compared_with_source",
        "type_by_name_entries_compared",
        "legacy_queries_compared",
        "sdl_models_compared",
        "hidden_names_scanned_for",
        "subjects_with_interface_chain_depth_ge3",
        "hidden_intermediate_interface_cases",
        "custom_directives_compared",
    ] {
        run.require_counter(c);
    }
    static_part(&run);
    witness::run_all(&run);
    dynamic_part(&run);
    run.finish_code_exit();
}
