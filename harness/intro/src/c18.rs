//! C18 — stub (being built).
pub fn main() {
    println!("INCONCLUSIVE property=C18 reason=check not built yet");
    std::process::exit(2);
}
