//! Deterministic PRNG (SplitMix64 seeding a xoshiro256**), no external crates.

#[derive(Clone, Debug)]
pub struct Rng {
    s: [u64; 4],
}

fn splitmix(x: &mut u64) -> u64 {
    *x = x.wrapping_add(0x9E37_79B9_7F4A_7C15);
    let mut z = *x;
    z = (z ^ (z >> 30)).wrapping_mul(0xBF58_476D_1CE4_E5B9);
    z = (z ^ (z >> 27)).wrapping_mul(0x94D0_49BB_1331_11EB);
    z ^ (z >> 31)
}

/// Stable 64-bit hash (FNV-1a followed by a splitmix finaliser).
pub fn hash_bytes(b: &[u8]) -> u64 {
    let mut h: u64 = 0xcbf2_9ce4_8422_2325;
    for &c in b {
        h ^= c as u64;
        h = h.wrapping_mul(0x0000_0100_0000_01B3);
    }
    let mut x = h;
    splitmix(&mut x)
}

pub fn hash_str(s: &str) -> u64 {
    hash_bytes(s.as_bytes())
}

/// Mix several integers into one seed.
pub fn mix(parts: &[u64]) -> u64 {
    let mut x = 0x1234_5678_9abc_def0u64;
    let mut out = 0u64;
    for &p in parts {
        x ^= p;
        out = splitmix(&mut x) ^ out.rotate_left(17);
    }
    out
}

impl Rng {
    pub fn new(seed: u64) -> Self {
        let mut x = seed;
        let s = [
            splitmix(&mut x),
            splitmix(&mut x),
            splitmix(&mut x),
            splitmix(&mut x),
        ];
        Rng { s }
    }

    /// Derive an independent stream.
    pub fn fork(&mut self, tag: u64) -> Rng {
        Rng::new(mix(&[self.next_u64(), tag]))
    }

    pub fn next_u64(&mut self) -> u64 {
        let r = self.s[1].wrapping_mul(5).rotate_left(7).wrapping_mul(9);
        let t = self.s[1] << 17;
        self.s[2] ^= self.s[0];
        self.s[3] ^= self.s[1];
        self.s[1] ^= self.s[2];
        self.s[0] ^= self.s[3];
        self.s[2] ^= t;
        self.s[3] = self.s[3].rotate_left(45);
        r
    }

    /// Uniform in 0..n (n > 0).
    pub fn below(&mut self, n: usize) -> usize {
        assert!(n > 0);
        (self.next_u64() % (n as u64)) as usize
    }

    /// Uniform in lo..=hi.
    pub fn range(&mut self, lo: i64, hi: i64) -> i64 {
        assert!(lo <= hi);
        let span = (hi as i128 - lo as i128 + 1) as u128;
        (lo as i128 + (self.next_u64() as u128 % span) as i128) as i64
    }

    pub fn bool(&mut self) -> bool {
        self.next_u64() & 1 == 1
    }

    /// True with probability num/den.
    pub fn chance(&mut self, num: u32, den: u32) -> bool {
        (self.next_u64() % den as u64) < num as u64
    }

    pub fn f64_unit(&mut self) -> f64 {
        (self.next_u64() >> 11) as f64 / (1u64 << 53) as f64
    }

    pub fn pick<'a, T>(&mut self, xs: &'a [T]) -> &'a T {
        &xs[self.below(xs.len())]
    }

    pub fn shuffle<T>(&mut self, xs: &mut [T]) {
        for i in (1..xs.len()).rev() {
            let j = self.below(i + 1);
            xs.swap(i, j);
        }
    }

    /// Pick an index according to integer weights.
    pub fn weighted(&mut self, w: &[u32]) -> usize {
        let total: u64 = w.iter().map(|&x| x as u64).sum();
        assert!(total > 0);
        let mut r = self.next_u64() % total;
        for (i, &x) in w.iter().enumerate() {
            if r < x as u64 {
                return i;
            }
            r -= x as u64;
        }
        w.len() - 1
    }
}
