//! vh-core: pieces shared by every engine of the verification harness.
//! Pure Rust, no dependency on the code under test.

pub mod rng;
pub mod run;
pub mod vsched;

pub use rng::Rng;
pub use run::{Run, Tier, catch};
pub use serde_json;
