//! vsched — a single-threaded, schedule-controlled executor for real futures.
//!
//! Tasks are ordinary boxed futures polled with real wakers, so combinators
//! inside the library under test (`FuturesOrdered`, `select_all`, `join_all`,
//! channels) behave exactly as under any other executor. *Gates* are harness
//! futures that stay pending until the schedule opens them: every resolver,
//! loader call, timer and stream the harness owns awaits a gate, which makes
//! every existing suspension point of the library a choice point. Nothing is
//! injected where the library cannot yield.
//!
//! Loop: poll all woken tasks to quiescence → collect armed gates → let the
//! `Chooser` pick one → open it → repeat, until the root future is done (or,
//! in drain mode, nothing is runnable and nothing is armed).

use std::future::Future;
use std::pin::Pin;
use std::sync::atomic::{AtomicBool, Ordering};
use std::sync::{Arc, Mutex};
use std::task::{Context, Poll, Wake, Waker};

use crate::rng::Rng;

type BoxFut = Pin<Box<dyn Future<Output = ()> + Send + 'static>>;

struct GateState {
    label: String,
    open: bool,
    armed: bool,
    dropped: bool,
    waker: Option<Waker>,
}

#[derive(Default)]
struct State {
    gates: Vec<GateState>,
    spawned: Vec<BoxFut>,
    /// labels that are opened as soon as they arm (gates nobody wants to order)
    auto_open_prefixes: Vec<String>,
    opened_log: Vec<String>,
}

#[derive(Clone, Default)]
pub struct Sched {
    st: Arc<Mutex<State>>,
}

pub struct Gate {
    st: Arc<Mutex<State>>,
    id: usize,
}

impl Future for Gate {
    type Output = ();
    fn poll(self: Pin<&mut Self>, cx: &mut Context<'_>) -> Poll<()> {
        let mut st = self.st.lock().unwrap();
        let auto = {
            let g = &st.gates[self.id];
            st.auto_open_prefixes
                .iter()
                .any(|p| g.label.starts_with(p.as_str()))
        };
        let g = &mut st.gates[self.id];
        if g.open || auto {
            g.open = true;
            g.armed = false;
            Poll::Ready(())
        } else {
            g.armed = true;
            g.waker = Some(cx.waker().clone());
            Poll::Pending
        }
    }
}

impl Drop for Gate {
    fn drop(&mut self) {
        if let Ok(mut st) = self.st.lock() {
            let g = &mut st.gates[self.id];
            g.dropped = true;
            g.armed = false;
            g.waker = None;
        }
    }
}

#[derive(Clone, Debug)]
pub struct Armed {
    pub id: usize,
    pub label: String,
}

pub trait Chooser {
    /// Pick the index (into `armed`) of the gate to open next.
    fn choose(&mut self, armed: &[Armed]) -> usize;
}

/// Seeded random choice.
pub struct RandomChooser(pub Rng);
impl Chooser for RandomChooser {
    fn choose(&mut self, armed: &[Armed]) -> usize {
        self.0.below(armed.len())
    }
}

/// Always the first armed gate (creation order): the "natural" order.
pub struct FifoChooser;
impl Chooser for FifoChooser {
    fn choose(&mut self, _armed: &[Armed]) -> usize {
        0
    }
}

/// Always the most recently created armed gate.
pub struct LifoChooser;
impl Chooser for LifoChooser {
    fn choose(&mut self, armed: &[Armed]) -> usize {
        armed.len() - 1
    }
}

/// Depth-first enumeration of all schedules: replays a prefix of choices and
/// takes choice 0 beyond it, recording the branching factor at every step.
#[derive(Default, Clone, Debug)]
pub struct Dfs {
    pub prefix: Vec<usize>,
    pub trace: Vec<(usize, usize)>,
}

impl Dfs {
    pub fn new() -> Self {
        Dfs::default()
    }
    pub fn from_choices(c: Vec<usize>) -> Self {
        Dfs {
            prefix: c,
            trace: vec![],
        }
    }
    /// Prepare the next schedule; false when the space is exhausted.
    pub fn advance(&mut self) -> bool {
        let mut t = std::mem::take(&mut self.trace);
        while let Some((c, n)) = t.pop() {
            if c + 1 < n {
                self.prefix = t.iter().map(|x| x.0).collect();
                self.prefix.push(c + 1);
                return true;
            }
        }
        false
    }
    pub fn choices(&self) -> Vec<usize> {
        self.trace.iter().map(|x| x.0).collect()
    }
}

impl Chooser for Dfs {
    fn choose(&mut self, armed: &[Armed]) -> usize {
        let step = self.trace.len();
        let c = if step < self.prefix.len() {
            self.prefix[step].min(armed.len() - 1)
        } else {
            0
        };
        self.trace.push((c, armed.len()));
        c
    }
}

/// Replays a recorded choice vector, then falls back to choice 0.
pub struct ReplayChooser {
    pub choices: Vec<usize>,
    pub at: usize,
}
impl Chooser for ReplayChooser {
    fn choose(&mut self, armed: &[Armed]) -> usize {
        let c = self.choices.get(self.at).copied().unwrap_or(0);
        self.at += 1;
        c.min(armed.len() - 1)
    }
}

struct TaskWaker {
    woken: AtomicBool,
}
impl Wake for TaskWaker {
    fn wake(self: Arc<Self>) {
        self.woken.store(true, Ordering::SeqCst);
    }
    fn wake_by_ref(self: &Arc<Self>) {
        self.woken.store(true, Ordering::SeqCst);
    }
}

struct Task {
    fut: Option<BoxFut>,
    waker: Arc<TaskWaker>,
}

#[derive(Debug, Clone, PartialEq, Eq)]
pub enum Outcome {
    /// root future completed
    Done,
    /// root not complete, nothing runnable, nothing armed
    Deadlock,
    /// step budget exhausted
    StepLimit,
}

#[derive(Debug, Clone)]
pub struct RunReport {
    pub outcome: Outcome,
    /// labels of gates in the order they were opened
    pub opened: Vec<String>,
    /// number of choice points with more than one option
    pub branch_points: usize,
    /// largest armed set seen at a choice point
    pub max_armed: usize,
    pub polls: u64,
}

impl Sched {
    pub fn new() -> Sched {
        Sched::default()
    }

    /// Create a gate. It is *armed* once polled and stays pending until opened.
    pub fn gate(&self, label: impl Into<String>) -> Gate {
        let mut st = self.st.lock().unwrap();
        st.gates.push(GateState {
            label: label.into(),
            open: false,
            armed: false,
            dropped: false,
            waker: None,
        });
        Gate {
            st: self.st.clone(),
            id: st.gates.len() - 1,
        }
    }

    /// Gates whose label starts with `prefix` open as soon as they are polled.
    pub fn auto_open(&self, prefix: &str) {
        self.st
            .lock()
            .unwrap()
            .auto_open_prefixes
            .push(prefix.to_string());
    }

    /// Spawn a task into the loop (used by the harness `Spawn` adapter).
    pub fn spawn(&self, f: impl Future<Output = ()> + Send + 'static) {
        self.st.lock().unwrap().spawned.push(Box::pin(f));
    }

    pub fn armed(&self) -> Vec<Armed> {
        let st = self.st.lock().unwrap();
        st.gates
            .iter()
            .enumerate()
            .filter(|(_, g)| g.armed && !g.open && !g.dropped)
            .map(|(i, g)| Armed {
                id: i,
                label: g.label.clone(),
            })
            .collect()
    }

    fn open(&self, id: usize) {
        let w = {
            let mut st = self.st.lock().unwrap();
            let label = st.gates[id].label.clone();
            st.opened_log.push(label);
            let g = &mut st.gates[id];
            g.open = true;
            g.armed = false;
            g.waker.take()
        };
        if let Some(w) = w {
            w.wake();
        }
    }

    /// Drive `root` to completion under `chooser`.
    ///
    /// With `drain` the loop continues after the root completed until no task
    /// is runnable and no gate is armed (quiescence), so spawned tasks finish.
    pub fn run<T: Send + 'static>(
        &self,
        root: impl Future<Output = T> + Send + 'static,
        chooser: &mut dyn Chooser,
        drain: bool,
        max_steps: usize,
    ) -> (Option<T>, RunReport) {
        let slot: Arc<Mutex<Option<T>>> = Arc::new(Mutex::new(None));
        let slot2 = slot.clone();
        let root_task: BoxFut = Box::pin(async move {
            let v = root.await;
            *slot2.lock().unwrap() = Some(v);
        });
        let mut tasks: Vec<Task> = vec![Task {
            fut: Some(root_task),
            waker: Arc::new(TaskWaker {
                woken: AtomicBool::new(true),
            }),
        }];
        let mut report = RunReport {
            outcome: Outcome::Done,
            opened: vec![],
            branch_points: 0,
            max_armed: 0,
            polls: 0,
        };
        let mut steps = 0usize;
        loop {
            // poll to quiescence
            loop {
                // adopt spawned tasks
                let new: Vec<BoxFut> = std::mem::take(&mut self.st.lock().unwrap().spawned);
                for f in new {
                    tasks.push(Task {
                        fut: Some(f),
                        waker: Arc::new(TaskWaker {
                            woken: AtomicBool::new(true),
                        }),
                    });
                }
                let mut progressed = false;
                for i in 0..tasks.len() {
                    if tasks[i].fut.is_none() {
                        continue;
                    }
                    if !tasks[i].waker.woken.swap(false, Ordering::SeqCst) {
                        continue;
                    }
                    progressed = true;
                    report.polls += 1;
                    let waker = Waker::from(tasks[i].waker.clone());
                    let mut cx = Context::from_waker(&waker);
                    let done = tasks[i].fut.as_mut().unwrap().as_mut().poll(&mut cx).is_ready();
                    if done {
                        tasks[i].fut = None;
                    }
                }
                let has_spawned = !self.st.lock().unwrap().spawned.is_empty();
                if !progressed && !has_spawned {
                    break;
                }
            }
            let root_done = tasks[0].fut.is_none();
            if root_done && !drain {
                report.outcome = Outcome::Done;
                break;
            }
            let armed = self.armed();
            if armed.is_empty() {
                report.outcome = if root_done {
                    Outcome::Done
                } else {
                    Outcome::Deadlock
                };
                break;
            }
            steps += 1;
            if steps > max_steps {
                report.outcome = Outcome::StepLimit;
                break;
            }
            if armed.len() > 1 {
                report.branch_points += 1;
            }
            report.max_armed = report.max_armed.max(armed.len());
            let c = chooser.choose(&armed).min(armed.len() - 1);
            self.open(armed[c].id);
        }
        report.opened = self.st.lock().unwrap().opened_log.clone();
        // Drop remaining tasks before returning so their gates disarm.
        drop(tasks);
        let v = slot.lock().unwrap().take();
        (v, report)
    }
}

/// Run a future that needs no schedule control to completion on this thread.
/// Panics if it would block forever (nothing can wake it).
pub fn block_on<T>(fut: impl Future<Output = T>) -> T {
    let waker_state = Arc::new(TaskWaker {
        woken: AtomicBool::new(true),
    });
    let waker = Waker::from(waker_state.clone());
    let mut cx = Context::from_waker(&waker);
    let mut fut = std::pin::pin!(fut);
    let mut idle_spins = 0u64;
    loop {
        if waker_state.woken.swap(false, Ordering::SeqCst) {
            idle_spins = 0;
            if let Poll::Ready(v) = fut.as_mut().poll(&mut cx) {
                return v;
            }
        } else {
            // Another thread (e.g. the `blocking` pool used for temp files) may
            // still wake us; yield and retry for a bounded while.
            idle_spins += 1;
            if idle_spins > 200_000 {
                panic!("vsched::block_on: future is pending and nothing woke it");
            }
            std::thread::yield_now();
            if idle_spins % 1000 == 0 {
                std::thread::sleep(std::time::Duration::from_micros(200));
            }
        }
    }
}
