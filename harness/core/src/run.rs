//! Check runner: argument parsing, evidence, known findings, verdicts.
//!
//! Every engine binary is invoked as
//!     <engine> <PROPERTY-ID> <quick|thorough> [--replay <path>]
//! with `VERIF_SEED` (default 1) in the environment. A `Run` collects what the
//! monitors observed, decides VIOLATION / KNOWN-FINDING for every reported
//! violation, writes `evidence/<ID>.json` and exits with
//!   0  held on everything explored (known findings are printed, not counted)
//!   1  at least one violation that known_findings.json does not list
//!   2  inconclusive (floors not reached, harness error, watchdog)

use std::collections::{BTreeMap, BTreeSet};
use std::path::{Path, PathBuf};
use std::sync::Mutex;
use std::time::Instant;

use serde_json::{Value as J, json};

#[derive(Clone, Copy, PartialEq, Eq, Debug)]
pub enum Tier {
    Quick,
    Thorough,
}

#[derive(Clone, Debug)]
pub struct Finding {
    pub property: String,
    pub id: String,
    pub status: String, // "known" | "fixed"
    pub what: String,
    pub signature: Option<String>,
    pub excludes_features: Vec<String>,
}

struct Inner {
    evaluations: u64,
    distinct: BTreeSet<u64>,
    samples: Vec<J>,
    counters: BTreeMap<String, u64>,
    sets: BTreeMap<String, BTreeSet<String>>,
    extra: BTreeMap<String, J>,
    violations: u64,
    violation_sigs: BTreeSet<String>,
    known_hits: BTreeMap<String, u64>,
    inconclusive: Vec<String>,
    notes: Vec<String>,
    exhaustive: Option<bool>,
}

pub struct Run {
    pub prop: String,
    pub tier: Tier,
    pub seed: u64,
    pub replay: Option<PathBuf>,
    pub root: PathBuf,
    level: String,
    rule: String,
    assumptions: Vec<String>,
    findings: Vec<Finding>,
    start: Instant,
    max_samples: usize,
    floor_eval: u64,
    floor_distinct: u64,
    required_counters: Vec<String>,
    inner: Mutex<Inner>,
}

pub fn verif_root() -> PathBuf {
    if let Ok(r) = std::env::var("VERIF_ROOT") {
        return PathBuf::from(r);
    }
    let p = Path::new(env!("CARGO_MANIFEST_DIR")).join("../..");
    p.canonicalize().unwrap_or(p)
}

pub fn load_findings(root: &Path) -> Vec<Finding> {
    let p = root.join("known_findings.json");
    let Ok(text) = std::fs::read_to_string(&p) else {
        return vec![];
    };
    let v: J = match serde_json::from_str(&text) {
        Ok(v) => v,
        Err(e) => {
            eprintln!("known_findings.json does not parse: {e}");
            println!("INCONCLUSIVE reason=known_findings.json unreadable");
            std::process::exit(2);
        }
    };
    let mut out = vec![];
    for f in v["findings"].as_array().cloned().unwrap_or_default() {
        out.push(Finding {
            property: f["property"].as_str().unwrap_or("").to_string(),
            id: f["id"].as_str().unwrap_or("").to_string(),
            status: f["status"].as_str().unwrap_or("known").to_string(),
            what: f["what"].as_str().unwrap_or("").to_string(),
            signature: f["signature"].as_str().map(|s| s.to_string()),
            excludes_features: f["excludes_features"]
                .as_array()
                .map(|a| {
                    a.iter()
                        .filter_map(|x| x.as_str().map(|s| s.to_string()))
                        .collect()
                })
                .unwrap_or_default(),
        });
    }
    out
}

impl Run {
    /// Parse `<ID> <tier> [--replay path]` from the process arguments
    /// (argv[1] is the property id, already dispatched on by the caller).
    pub fn from_args(level: &str, rule: &str) -> Run {
        let args: Vec<String> = std::env::args().collect();
        if args.len() < 3 {
            eprintln!("usage: {} <ID> <quick|thorough> [--replay <path>]", args[0]);
            std::process::exit(2);
        }
        let prop = args[1].clone();
        let tier = match args[2].as_str() {
            "quick" => Tier::Quick,
            "thorough" => Tier::Thorough,
            "--replay" => Tier::Quick,
            other => {
                eprintln!("unknown tier {other}");
                std::process::exit(2);
            }
        };
        let mut replay = None;
        let mut i = 2;
        while i < args.len() {
            if args[i] == "--replay" && i + 1 < args.len() {
                replay = Some(PathBuf::from(&args[i + 1]));
                i += 1;
            }
            i += 1;
        }
        // The evidence schema fixes the level vocabulary; anything else makes the
        // evidence file invalid, so refuse to run rather than write it.
        const LEVELS: [&str; 6] = [
            "exploration",
            "fault_enumeration",
            "model_checking",
            "proof",
            "translation_validation",
            "other",
        ];
        if !LEVELS.contains(&level) {
            println!(
                "INCONCLUSIVE property={prop} reason=harness error: evidence level {level:?} is not one of {LEVELS:?}"
            );
            std::process::exit(2);
        }
        let seed = std::env::var("VERIF_SEED")
            .ok()
            .and_then(|s| s.trim().parse::<u64>().ok())
            .unwrap_or(1);
        let root = verif_root();
        let findings = load_findings(&root);
        Run {
            prop,
            tier,
            seed,
            replay,
            root,
            level: level.to_string(),
            rule: rule.to_string(),
            assumptions: vec![],
            findings,
            start: Instant::now(),
            max_samples: 5,
            floor_eval: 50,
            floor_distinct: 10,
            required_counters: vec![],
            inner: Mutex::new(Inner {
                evaluations: 0,
                distinct: BTreeSet::new(),
                samples: vec![],
                counters: BTreeMap::new(),
                sets: BTreeMap::new(),
                extra: BTreeMap::new(),
                violations: 0,
                violation_sigs: BTreeSet::new(),
                known_hits: BTreeMap::new(),
                inconclusive: vec![],
                notes: vec![],
                exhaustive: None,
            }),
        }
    }

    pub fn is_thorough(&self) -> bool {
        self.tier == Tier::Thorough
    }

    /// Pick a workload size by tier.
    pub fn scale(&self, quick: u64, thorough: u64) -> u64 {
        match self.tier {
            Tier::Quick => quick,
            Tier::Thorough => thorough,
        }
    }

    pub fn assume(&mut self, s: &str) {
        self.assumptions.push(s.to_string());
    }

    pub fn set_floors(&mut self, evaluations: u64, distinct: u64) {
        self.floor_eval = evaluations;
        self.floor_distinct = distinct;
    }

    /// Counters that must be non-zero at the end, otherwise the run is
    /// inconclusive (the monitor never saw the kind of event it judges).
    pub fn require_counter(&mut self, name: &str) {
        self.required_counters.push(name.to_string());
    }

    pub fn set_max_samples(&mut self, n: usize) {
        self.max_samples = n;
    }

    /// Is a generator feature enabled? A feature is switched off only while a
    /// finding with status "known" for this property excludes it.
    pub fn feature(&self, name: &str) -> bool {
        !self.findings.iter().any(|f| {
            f.property == self.prop
                && f.status == "known"
                && f.excludes_features.iter().any(|x| x == name)
        })
    }

    pub fn excluded_features(&self) -> Vec<String> {
        let mut v = vec![];
        for f in &self.findings {
            if f.property == self.prop && f.status == "known" {
                v.extend(f.excludes_features.iter().cloned());
            }
        }
        v.sort();
        v.dedup();
        v
    }

    pub fn eval(&self) {
        self.inner.lock().unwrap().evaluations += 1;
    }

    pub fn evals(&self, n: u64) {
        self.inner.lock().unwrap().evaluations += n;
    }

    /// Record a distinct non-trivial case by its hash.
    pub fn nontrivial(&self, hash: u64) {
        self.inner.lock().unwrap().distinct.insert(hash);
    }

    pub fn sample(&self, v: J) {
        let mut g = self.inner.lock().unwrap();
        if g.samples.len() < self.max_samples {
            g.samples.push(v);
        }
    }

    /// Keep a sample only if fewer than `n` samples are stored (lets rare
    /// interesting cases be added later).
    pub fn sample_upto(&self, n: usize, v: J) {
        let mut g = self.inner.lock().unwrap();
        if g.samples.len() < n {
            g.samples.push(v);
        }
    }

    pub fn count(&self, name: &str, n: u64) {
        *self
            .inner
            .lock()
            .unwrap()
            .counters
            .entry(name.to_string())
            .or_insert(0) += n;
    }

    /// Record membership in a named set (reported as its size and, when small,
    /// its members): automaton states visited, features hit, fault classes ...
    pub fn seen(&self, set: &str, member: &str) {
        self.inner
            .lock()
            .unwrap()
            .sets
            .entry(set.to_string())
            .or_default()
            .insert(member.to_string());
    }

    /// Extra coverage key. Keys the evidence schema gives a type to (or that
    /// `finish` writes itself) are stored as `extra_<key>` so that an extra can
    /// never overwrite them with a value of another shape.
    pub fn extra(&self, key: &str, v: J) {
        const RESERVED: [&str; 20] = [
            "evaluations", "distinct_nontrivial", "rule", "samples", "states", "transitions",
            "traces_validated_against_impl", "obligations", "discharged", "checker_cmd",
            "trusted_base", "programs", "disagreements_checked", "explanation", "exhaustive",
            "observed", "observed_sets", "features_excluded", "known_findings_reproduced",
            "inconclusive",
        ];
        let key = if RESERVED.contains(&key) { format!("extra_{key}") } else { key.to_string() };
        self.inner.lock().unwrap().extra.insert(key, v);
    }

    pub fn exhaustive(&self, b: bool) {
        self.inner.lock().unwrap().exhaustive = Some(b);
    }

    pub fn note(&self, s: &str) {
        println!("NOTE: {s}");
        self.inner.lock().unwrap().notes.push(s.to_string());
    }

    pub fn inconclusive(&self, reason: &str) {
        println!("INCONCLUSIVE property={} reason={}", self.prop, reason);
        self.inner
            .lock()
            .unwrap()
            .inconclusive
            .push(reason.to_string());
    }

    pub fn violations(&self) -> u64 {
        self.inner.lock().unwrap().violations
    }

    pub fn elapsed_s(&self) -> f64 {
        self.start.elapsed().as_secs_f64()
    }

    /// Report a violation.
    ///
    /// `signature` identifies the failing input / call site / history exactly
    /// (witness name + wrong observation for pinned witnesses, an input hash for
    /// generated cases). If known_findings.json lists that signature for this
    /// property with status "known" a KNOWN-FINDING line is printed; otherwise
    /// a replay file is written and a VIOLATION line printed.
    pub fn violation(&self, signature: &str, what: &str, replay: J) {
        let known = self.findings.iter().find(|f| {
            f.property == self.prop
                && f.status == "known"
                && f.signature.as_deref() == Some(signature)
        });
        let mut g = self.inner.lock().unwrap();
        if let Some(f) = known {
            let n = g.known_hits.entry(f.id.clone()).or_insert(0);
            if *n == 0 {
                println!(
                    "KNOWN-FINDING: property={} {} [{}]",
                    self.prop, f.what, f.id
                );
            }
            *n += 1;
            return;
        }
        g.violations += 1;
        if !g.violation_sigs.insert(signature.to_string()) {
            return; // already reported this exact signature
        }
        let cap = std::env::var("VERIF_MAX_REPORT").ok().and_then(|s| s.parse::<usize>().ok()).unwrap_or(20);
        if g.violation_sigs.len() > cap {
            return; // keep output bounded; the count is still reported
        }
        drop(g);
        let dir = self.root.join("replays").join(&self.prop);
        let _ = std::fs::create_dir_all(&dir);
        let h = crate::rng::hash_str(signature);
        let path = dir.join(format!("{h:016x}.json"));
        let body = json!({
            "property": self.prop,
            "seed": self.seed,
            "tier": match self.tier { Tier::Quick => "quick", Tier::Thorough => "thorough" },
            "signature": signature,
            "what": what,
            "case": replay,
        });
        let _ = std::fs::write(&path, serde_json::to_string_pretty(&body).unwrap());
        println!("VIOLATION property={} replay={}", self.prop, path.display());
        println!("  what: {}", truncate(what, 2000));
    }

    /// Write evidence and exit.
    pub fn finish(self) -> ! {
        let code = self.finish_code();
        std::process::exit(code);
    }

    /// Same as `finish` for callers that only hold a shared reference.
    pub fn finish_code_exit(&self) -> ! {
        std::process::exit(self.finish_code())
    }

    pub fn finish_code(&self) -> i32 {
        let wall = self.start.elapsed().as_secs_f64();
        let mut g = self.inner.lock().unwrap();
        // findings with status "known" that were not observed: say so
        for f in &self.findings {
            if f.property == self.prop
                && f.status == "known"
                && f.signature.is_some()
                && !g.known_hits.contains_key(&f.id)
                && self.replay.is_none()
            {
                println!(
                    "NOTE: known finding {} was not reproduced by this run (witness now behaves, or was not exercised)",
                    f.id
                );
            }
        }
        if self.replay.is_none() {
            if g.evaluations < self.floor_eval {
                let r = format!(
                    "only {} evaluations (floor {})",
                    g.evaluations, self.floor_eval
                );
                println!("INCONCLUSIVE property={} reason={}", self.prop, r);
                g.inconclusive.push(r);
            }
            if (g.distinct.len() as u64) < self.floor_distinct {
                let r = format!(
                    "only {} distinct non-trivial cases (floor {})",
                    g.distinct.len(),
                    self.floor_distinct
                );
                println!("INCONCLUSIVE property={} reason={}", self.prop, r);
                g.inconclusive.push(r);
            }
            for c in &self.required_counters {
                let n = g.counters.get(c).copied().unwrap_or(0)
                    + g.sets.get(c).map(|s| s.len() as u64).unwrap_or(0);
                if n == 0 {
                    let r = format!("monitor never observed '{c}'");
                    println!("INCONCLUSIVE property={} reason={}", self.prop, r);
                    g.inconclusive.push(r);
                }
            }
        }
        let mut coverage = serde_json::Map::new();
        coverage.insert("evaluations".into(), json!(g.evaluations));
        coverage.insert("distinct_nontrivial".into(), json!(g.distinct.len()));
        coverage.insert("rule".into(), json!(self.rule));
        coverage.insert("samples".into(), J::Array(g.samples.clone()));
        if let Some(b) = g.exhaustive {
            coverage.insert("exhaustive".into(), json!(b));
        }
        let mut counters = serde_json::Map::new();
        for (k, v) in &g.counters {
            counters.insert(k.clone(), json!(v));
        }
        coverage.insert("observed".into(), J::Object(counters));
        let mut sets = serde_json::Map::new();
        for (k, v) in &g.sets {
            let members: Vec<&String> = v.iter().take(200).collect();
            sets.insert(k.clone(), json!({"count": v.len(), "members": members}));
        }
        coverage.insert("observed_sets".into(), J::Object(sets));
        coverage.insert("features_excluded".into(), json!(self.excluded_features()));
        coverage.insert(
            "known_findings_reproduced".into(),
            json!(g.known_hits.clone()),
        );
        if !g.inconclusive.is_empty() {
            coverage.insert("inconclusive".into(), json!(g.inconclusive));
        }
        if !g.notes.is_empty() {
            coverage.insert("notes".into(), json!(g.notes));
        }
        for (k, v) in &g.extra {
            coverage.insert(k.clone(), v.clone());
        }
        let ev = json!({
            "property_id": self.prop,
            "tier": match self.tier { Tier::Quick => "quick", Tier::Thorough => "thorough" },
            "seed": self.seed,
            "level": self.level,
            "coverage": J::Object(coverage),
            "assumptions": self.assumptions,
            "wall_s": (wall * 1000.0).round() / 1000.0,
            "violations": g.violations,
        });
        if self.replay.is_none() {
            let dir = self.root.join("evidence");
            let _ = std::fs::create_dir_all(&dir);
            let path = dir.join(format!("{}.json", self.prop));
            if let Err(e) = std::fs::write(&path, serde_json::to_string_pretty(&ev).unwrap()) {
                eprintln!("cannot write evidence {}: {e}", path.display());
            }
        }
        println!(
            "SUMMARY property={} tier={:?} seed={} evaluations={} distinct_nontrivial={} violations={} known_findings={} wall_s={:.1}",
            self.prop,
            self.tier,
            self.seed,
            g.evaluations,
            g.distinct.len(),
            g.violations,
            g.known_hits.len(),
            wall
        );
        if g.violations > 0 {
            1
        } else if !g.inconclusive.is_empty() {
            2
        } else {
            0
        }
    }
}

pub fn truncate(s: &str, n: usize) -> String {
    if s.chars().count() <= n {
        s.to_string()
    } else {
        let t: String = s.chars().take(n).collect();
        format!("{t}…")
    }
}

/// Run `f`, converting a panic into `Err(message)`. The default panic hook is
/// silenced for the duration (per thread flag), so expected panics of the code
/// under test do not flood the output.
pub fn catch<R>(f: impl FnOnce() -> R) -> Result<R, String> {
    install_quiet_hook();
    QUIET.with(|q| q.set(q.get() + 1));
    let r = std::panic::catch_unwind(std::panic::AssertUnwindSafe(f));
    QUIET.with(|q| q.set(q.get() - 1));
    match r {
        Ok(v) => Ok(v),
        Err(e) => {
            let loc = LAST_PANIC.with(|l| l.borrow_mut().take()).unwrap_or_default();
            let msg = if let Some(s) = e.downcast_ref::<&str>() {
                s.to_string()
            } else if let Some(s) = e.downcast_ref::<String>() {
                s.clone()
            } else {
                "<non-string panic>".to_string()
            };
            Err(format!("{msg} @ {loc}"))
        }
    }
}

thread_local! {
    static QUIET: std::cell::Cell<u32> = const { std::cell::Cell::new(0) };
    static LAST_PANIC: std::cell::RefCell<Option<String>> = const { std::cell::RefCell::new(None) };
}

fn install_quiet_hook() {
    use std::sync::Once;
    static ONCE: Once = Once::new();
    ONCE.call_once(|| {
        let prev = std::panic::take_hook();
        std::panic::set_hook(Box::new(move |info| {
            let quiet = QUIET.with(|q| q.get()) > 0;
            if quiet {
                let loc = info
                    .location()
                    .map(|l| format!("{}:{}", l.file(), l.line()))
                    .unwrap_or_default();
                LAST_PANIC.with(|l| *l.borrow_mut() = Some(loc));
            } else {
                prev(info);
            }
        }));
    });
}
