//! C29 — DataLoader cache operations behave like the documented cache.
//!
//! Random sequential operation histories against a real DataLoader under
//! vsched (timer / loader gates either auto-open or are opened by a FIFO
//! chooser: there is never more than one armed gate). Every operation is logged
//! and the log is judged by the same offline monitor as C28 (`dl::check_history`
//! in exact mode): loads must be served from / bypass the cache exactly as the
//! reference cache model says (loader values carry batch ids, fed values carry
//! feed ids), `get_cached_values` must equal the model, nothing may panic.

use std::collections::{BTreeMap, HashSet};
use std::sync::Arc;
use std::sync::atomic::{AtomicU32, AtomicUsize, Ordering};
use std::time::Duration;

use async_graphql::dataloader::{CacheFactory, DataLoader, HashMapCache, LruCache, NoCache};
use async_graphql::runtime::Timer;
use futures_util::FutureExt;
use futures_util::future::BoxFuture;
use futures_util::task::{FutureObj, Spawn, SpawnError};
use serde::{Deserialize, Serialize};
use vh_core::serde_json::{self, Value as J, json};
use vh_core::vsched::{FifoChooser, Outcome, Sched};
use vh_core::{Rng, Run, catch, rng};

use crate::dl::*;

#[derive(Clone, Debug, Serialize, Deserialize, PartialEq)]
pub enum Op {
    LoadOne { t: u8, k: u8 },
    LoadMany { t: u8, keys: Vec<u8> },
    FeedOne { t: u8, k: u8 },
    FeedMany { t: u8, keys: Vec<u8> },
    Clear { t: u8 },
    ClearOne { t: u8, k: u8 },
    Enable { t: u8, on: bool },
    EnableAll { on: bool },
    Cached { t: u8 },
}

impl Op {
    fn tag(&self) -> Option<u8> {
        match self {
            Op::LoadOne { t, .. }
            | Op::LoadMany { t, .. }
            | Op::FeedOne { t, .. }
            | Op::FeedMany { t, .. }
            | Op::Clear { t }
            | Op::ClearOne { t, .. }
            | Op::Enable { t, .. }
            | Op::Cached { t } => Some(*t),
            Op::EnableAll { .. } => None,
        }
    }
    fn kind(&self) -> &'static str {
        match self {
            Op::LoadOne { .. } => "load_one",
            Op::LoadMany { .. } => "load_many",
            Op::FeedOne { .. } => "feed_one",
            Op::FeedMany { .. } => "feed_many",
            Op::Clear { .. } => "clear",
            Op::ClearOne { .. } => "clear_one",
            Op::Enable { .. } => "enable_cache",
            Op::EnableAll { .. } => "enable_all_cache",
            Op::Cached { .. } => "get_cached_values",
        }
    }
}

#[derive(Clone, Debug, Serialize, Deserialize, PartialEq)]
pub struct Hist {
    pub cache: CacheKind,
    pub max_batch: usize,
    /// timer / loader gates open as soon as they are polled (no suspension);
    /// otherwise a FIFO chooser opens the single armed gate
    pub auto_open: bool,
    /// keys the loader omits: (batch id or u32::MAX, key)
    pub omit: Vec<(u32, u8)>,
    pub ops: Vec<Op>,
}

struct VSpawn(Sched);
impl Spawn for VSpawn {
    fn spawn_obj(&self, future: FutureObj<'static, ()>) -> Result<(), SpawnError> {
        self.0.spawn(Tagged::new(future));
        Ok(())
    }
}
struct VTimer(Sched, AtomicU32);
impl Timer for VTimer {
    fn delay(&self, _d: Duration) -> BoxFuture<'static, ()> {
        mark_timer_used();
        let n = self.1.fetch_add(1, Ordering::SeqCst);
        self.0.gate(format!("timer#{n}")).boxed()
    }
}

struct Ids {
    call: u32,
    feed: u32,
}

async fn apply<K: HKey, C: CacheFactory>(dl: &DataLoader<HLoader, C>, log: &Log, op: &Op, ids: &mut Ids) {
    match op {
        Op::LoadOne { k, .. } => {
            let i = ids.call;
            ids.call += 1;
            log.push(Ev::Call {
                i,
                t: K::TAG,
                keys: vec![*k],
                one: true,
            });
            let r = dl.load_one(K::mk(*k)).await;
            log.push(Ev::Ret {
                i,
                res: r.map(|o| o.into_iter().map(|v| (*k, v)).collect()).map_err(|e| e.0),
            });
        }
        Op::LoadMany { keys, .. } => {
            let i = ids.call;
            ids.call += 1;
            log.push(Ev::Call {
                i,
                t: K::TAG,
                keys: keys.clone(),
                one: false,
            });
            let ks: Vec<K> = keys.iter().map(|k| K::mk(*k)).collect();
            let r = dl.load_many(ks).await;
            log.push(Ev::Ret {
                i,
                res: r
                    .map(|m| m.into_iter().map(|(k, v)| (k.id(), v)).collect())
                    .map_err(|e| e.0),
            });
        }
        Op::FeedOne { k, .. } => {
            let v = Val {
                k: *k,
                src: Src::Feed(ids.feed),
            };
            ids.feed += 1;
            log.push(Ev::Feed {
                t: K::TAG,
                entries: vec![(*k, v)],
            });
            dl.feed_one(K::mk(*k), v).await;
        }
        Op::FeedMany { keys, .. } => {
            let mut entries = vec![];
            for k in keys {
                entries.push((
                    *k,
                    Val {
                        k: *k,
                        src: Src::Feed(ids.feed),
                    },
                ));
                ids.feed += 1;
            }
            log.push(Ev::Feed {
                t: K::TAG,
                entries: entries.clone(),
            });
            dl.feed_many(entries.into_iter().map(|(k, v)| (K::mk(k), v))).await;
        }
        Op::Clear { .. } => {
            log.push(Ev::Clear { t: K::TAG });
            dl.clear::<K>();
        }
        Op::ClearOne { k, .. } => {
            log.push(Ev::ClearOne { t: K::TAG, k: *k });
            dl.clear_one(&K::mk(*k));
        }
        Op::Enable { on, .. } => {
            log.push(Ev::Enable { t: K::TAG, on: *on });
            dl.enable_cache::<K>(*on).await;
        }
        Op::Cached { .. } => {
            let m = dl.get_cached_values::<K>().await;
            log.push(Ev::Cached {
                t: K::TAG,
                map: m.into_iter().map(|(k, v)| (k.id(), v)).collect(),
            });
        }
        Op::EnableAll { on } => {
            log.push(Ev::EnableAll { on: *on });
            dl.enable_all_cache(*on);
        }
    }
}

pub struct HExec {
    pub log: Vec<Ev>,
    pub panic: Option<String>,
    /// index of the operation that was executing when the run stopped
    pub at_op: usize,
    pub outcome: String,
    pub quiescent: bool,
}

pub fn exec_hist(h: &Hist) -> HExec {
    match h.cache {
        CacheKind::None => exec_hist_c(h, NoCache),
        CacheKind::HashMap => exec_hist_c(h, HashMapCache::default()),
        CacheKind::Lru(c) => exec_hist_c(h, LruCache::new(c)),
    }
}

fn exec_hist_c<C: CacheFactory>(h: &Hist, factory: C) -> HExec {
    let sched = Sched::new();
    if h.auto_open {
        sched.auto_open("timer");
        sched.auto_open("loader");
    }
    let log = Arc::new(Log::default());
    let s2 = sched.clone();
    let loader = HLoader::new(
        log.clone(),
        Fault {
            fail: vec![],
            omit: h.omit.clone(),
        },
        Box::new(move |b| s2.gate(format!("loader#{b}")).boxed()),
    );
    let dl = DataLoader::with_cache(loader, VSpawn(sched.clone()), VTimer(sched.clone(), AtomicU32::new(0)), factory)
        .max_batch_size(h.max_batch);
    let at = Arc::new(AtomicUsize::new(0));
    let root = {
        let (log, at, ops) = (log.clone(), at.clone(), h.ops.clone());
        async move {
            let mut ids = Ids { call: 0, feed: 0 };
            for (n, op) in ops.iter().enumerate() {
                at.store(n, Ordering::SeqCst);
                match op.tag() {
                    Some(1) => apply::<KB, C>(&dl, &log, op, &mut ids).await,
                    _ => apply::<KA, C>(&dl, &log, op, &mut ids).await,
                }
            }
            at.store(ops.len(), Ordering::SeqCst);
        }
    };
    let r = catch(|| sched.run(root, &mut FifoChooser, true, 4000));
    let (outcome, panic, quiescent) = match r {
        Ok((_, rep)) => (
            format!("{:?}", rep.outcome),
            None,
            rep.outcome == Outcome::Done || rep.outcome == Outcome::Deadlock,
        ),
        Err(p) => ("panic".to_string(), Some(p), false),
    };
    HExec {
        log: log.snapshot(),
        panic,
        at_op: at.load(Ordering::SeqCst),
        outcome,
        quiescent,
    }
}

// ---------------------------------------------------------------- generator

struct GenInfo {
    enable_on_unseen: bool,
    two_types: bool,
    loads_while_disabled: u64,
    feeds_while_disabled: u64,
    first_ops: Vec<String>,
}

fn gen_hist(r: &mut Rng, allow_enable_unseen: bool) -> (Hist, GenInfo) {
    let cache = match r.below(10) {
        0 => CacheKind::None,
        1..=3 => CacheKind::HashMap,
        _ => CacheKind::Lru(1 + r.below(4)),
    };
    let max_batch = *r.pick(&[1usize, 2, 3, 1000]);
    let two_types = r.chance(3, 10);
    let nkeys = 2 + r.below(4); // 2..=5
    let len = match r.below(4) {
        0 => 1 + r.below(8),
        1 => 5 + r.below(16),
        _ => 15 + r.below(26),
    }
    .min(40);
    let mut omit = vec![];
    if r.chance(1, 4) {
        omit.push((u32::MAX, r.below(nkeys) as u8));
    }
    let mut info = GenInfo {
        enable_on_unseen: false,
        two_types,
        loads_while_disabled: 0,
        feeds_while_disabled: 0,
        first_ops: vec![],
    };
    let mut seen = [false, false];
    let mut en = [true, true];
    let mut en_all = true;
    let mut ops = vec![];
    let key = |r: &mut Rng| r.below(nkeys) as u8;
    for _ in 0..len {
        let t = if two_types { r.below(2) as u8 } else { 0 };
        let w = r.weighted(&[20, 20, 8, 8, 3, 6, 5, 4, 10]);
        let mut op = match w {
            0 => Op::LoadOne { t, k: key(r) },
            1 => {
                let n = match r.below(8) {
                    0 => 0,
                    1 | 2 => 1,
                    3..=5 => 2,
                    _ => 3,
                };
                Op::LoadMany {
                    t,
                    keys: (0..n).map(|_| key(r)).collect(),
                }
            }
            2 => Op::FeedOne { t, k: key(r) },
            3 => {
                let n = 1 + r.below(4);
                Op::FeedMany {
                    t,
                    keys: (0..n).map(|_| key(r)).collect(),
                }
            }
            4 => Op::Clear { t },
            5 => Op::ClearOne { t, k: key(r) },
            6 => Op::Enable { t, on: r.chance(2, 5) },
            7 => Op::EnableAll { on: r.chance(2, 5) },
            _ => Op::Cached { t },
        };
        if let Op::Enable { t, .. } = &op {
            if !seen[*t as usize] {
                if allow_enable_unseen {
                    info.enable_on_unseen = true;
                } else {
                    op = Op::Cached { t: *t };
                }
            }
        }
        if let Some(t) = op.tag() {
            if !seen[t as usize] {
                info.first_ops.push(op.kind().to_string());
            }
        }
        match &op {
            Op::LoadOne { t, .. } | Op::LoadMany { t, .. } => {
                seen[*t as usize] = true;
                if !(en[*t as usize] && en_all) {
                    info.loads_while_disabled += 1;
                }
            }
            Op::FeedOne { t, .. } | Op::FeedMany { t, .. } => {
                seen[*t as usize] = true;
                if !(en[*t as usize] && en_all) {
                    info.feeds_while_disabled += 1;
                }
            }
            Op::Clear { t } | Op::ClearOne { t, .. } => seen[*t as usize] = true,
            Op::Enable { t, on } => {
                seen[*t as usize] = true; // (if it does not panic)
                en[*t as usize] = *on;
            }
            Op::EnableAll { on } => en_all = *on,
            Op::Cached { .. } => {}
        }
        ops.push(op);
    }
    (
        Hist {
            cache,
            max_batch,
            auto_open: r.bool(),
            omit,
            ops,
        },
        info,
    )
}

// ---------------------------------------------------------------- judging

struct Acc {
    evals: u64,
    counters: BTreeMap<String, u64>,
    distinct: HashSet<u64>,
    samples: Vec<J>,
    record_distinct: bool,
}
impl Default for Acc {
    fn default() -> Self {
        Acc {
            evals: 0,
            counters: BTreeMap::new(),
            distinct: HashSet::new(),
            samples: vec![],
            record_distinct: true,
        }
    }
}
impl Acc {
    fn c(&mut self, k: &str, n: u64) {
        if n > 0 {
            *self.counters.entry(k.to_string()).or_insert(0) += n;
        }
    }
    fn flush(&mut self, run: &Run) {
        run.evals(self.evals);
        self.evals = 0;
        for (k, v) in std::mem::take(&mut self.counters) {
            run.count(&k, v);
        }
        for h in self.distinct.drain() {
            run.nontrivial(h);
        }
        for s in self.samples.drain(..) {
            run.sample(s);
        }
    }
}

fn strip_loc(p: &str) -> String {
    p.split(" @ ").next().unwrap_or(p).to_string()
}

/// Returns (violated, rules+messages).
fn judge(run: &Run, acc: &mut Acc, h: &Hist, ex: &HExec, witness: Option<&str>) -> bool {
    acc.evals += 1;
    let mut bad = false;
    let hh = rng::hash_str(&serde_json::to_string(h).unwrap());
    let case = json!({"hist": h, "log": ex.log, "outcome": ex.outcome, "stopped_at_op": ex.at_op});
    if ex.outcome == "StepLimit" {
        run.inconclusive("a C29 history hit the vsched step limit");
        return false;
    }
    if let Some(p) = &ex.panic {
        bad = true;
        acc.c("panics", 1);
        let op = h.ops.get(ex.at_op);
        let sig = match witness {
            Some(w) => format!("{w}|panic: {}", strip_loc(p)),
            None => format!("C29-panic:{hh:x}"),
        };
        run.violation(
            &sig,
            &format!(
                "operation #{} {:?} panicked: {p} | {} max_batch_size={} | ops so far: {:?}",
                ex.at_op,
                op,
                h.cache.name(),
                h.max_batch,
                &h.ops[..=ex.at_op.min(h.ops.len().saturating_sub(1))]
            ),
            case.clone(),
        );
    }
    let mon = MonCfg {
        cache: h.cache,
        max_batch: h.max_batch,
    };
    let out = check_history(&mon, &ex.log, ex.quiescent, true);
    if out.viol.iter().any(|v| v.0 == "HARNESS") {
        run.inconclusive(&format!("harness log inconsistent: {:?}", out.viol));
        return false;
    }
    if out.blowup {
        acc.c("exact_cache_model_abandoned", 1);
    }
    acc.c("cache_hits", out.cache_hits);
    acc.c("loads_partly_cache_served", out.partial_hits);
    acc.c("loads_fully_cache_served", out.full_hits);
    acc.c("lru_evictions_in_model", out.evictions);
    acc.c("loads_checked", out.loads_checked);
    acc.c("get_cached_values_checked", out.cached_checked);
    if out.max_states > 1 {
        acc.c("histories_with_ambiguous_lru_order", 1);
    }
    let mut batches = 0;
    for e in &ex.log {
        match e {
            Ev::BatchStart { via_timer, .. } => {
                batches += 1;
                acc.c(if *via_timer { "timer_dispatches" } else { "immediate_dispatches" }, 1);
            }
            Ev::Ret { res: Ok(m), .. } => {
                if m.values().any(|v| matches!(v.src, Src::Feed(_))) {
                    acc.c("loads_returning_fed_values", 1);
                }
            }
            _ => {}
        }
    }
    acc.c("loader_batches", batches);
    if !out.viol.is_empty() {
        bad = true;
        let rules = out.rules().join("+");
        let what: Vec<String> = out.viol.iter().map(|(r, m)| format!("{r}: {m}")).collect();
        let sig = match witness {
            Some(w) => format!("{w}|{rules}"),
            None => format!("C29-{rules}:{hh:x}"),
        };
        run.violation(
            &sig,
            &format!(
                "{} | {} max_batch_size={} auto_open={} | ops {:?} | log {}",
                what.join(" || "),
                h.cache.name(),
                h.max_batch,
                h.auto_open,
                h.ops,
                serde_json::to_string(&ex.log).unwrap()
            ),
            case,
        );
    }
    if out.cache_hits > 0 && batches > 0 && h.ops.len() >= 5 {
        if acc.record_distinct {
            acc.distinct.insert(hh);
        } else {
            acc.c("distinct_cases_not_recorded_beyond_per_shard_cap", 1);
        }
    }
    !bad
}

// ---------------------------------------------------------------- pinned witness

pub const W1: &str = "C29-W1-enable_cache-before-first-use";

fn witness_hists() -> Vec<(&'static str, Hist)> {
    vec![(
        W1,
        Hist {
            cache: CacheKind::HashMap,
            max_batch: 1000,
            auto_open: true,
            omit: vec![],
            ops: vec![
                Op::Enable { t: 0, on: false },
                Op::FeedOne { t: 0, k: 1 },
                Op::LoadOne { t: 0, k: 1 },
                Op::Enable { t: 0, on: true },
                Op::LoadOne { t: 0, k: 1 },
                Op::Cached { t: 0 },
            ],
        },
    )]
}

fn replay(run: &Run, path: &std::path::Path) {
    let v: J = match std::fs::read_to_string(path).map_err(|e| e.to_string()).and_then(|t| serde_json::from_str(&t).map_err(|e| e.to_string())) {
        Ok(v) => v,
        Err(e) => {
            run.inconclusive(&format!("cannot read replay file: {e}"));
            return;
        }
    };
    let case = if v.get("case").is_some() { v["case"].clone() } else { v.clone() };
    let h: Hist = match serde_json::from_value(case["hist"].clone()) {
        Ok(h) => h,
        Err(e) => {
            run.inconclusive(&format!("replay file has no usable history: {e}"));
            return;
        }
    };
    let sig = v["signature"].as_str().unwrap_or("");
    let witness = witness_hists().into_iter().find(|(w, _)| sig.starts_with(w)).map(|(w, _)| w);
    println!("replay: {} max_batch_size={} auto_open={}", h.cache.name(), h.max_batch, h.auto_open);
    for (i, op) in h.ops.iter().enumerate() {
        println!("  op {i:2} {op:?}");
    }
    let ex = exec_hist(&h);
    for (i, e) in ex.log.iter().enumerate() {
        println!("  {i:3} {e:?}");
    }
    if let Some(p) = &ex.panic {
        println!("  panic at op {}: {p}", ex.at_op);
    }
    let mut acc = Acc::default();
    let ok = judge(run, &mut acc, &h, &ex, witness);
    println!("replay: {}", if ok { "no violation reproduced" } else { "violation reproduced" });
}

pub fn main() {
    let mut run = Run::from_args(
        "exploration",
        "random sequential operation histories (<=40 ops, <=5 keys, one or two key types on one loader) of load_one / \
         load_many / feed_one / feed_many / clear / clear_one / enable_cache / enable_all_cache / get_cached_values on a \
         fresh DataLoader with NoCache, HashMapCache or LruCache(1-4), max_batch_size 1/2/3/1000, loader optionally \
         omitting a key, timer and loader gates auto-opened or opened FIFO; judged against the reference cache model by \
         value provenance (batch ids / feed ids). A history is non-trivial when it has >=5 ops, at least one cache hit \
         and at least one loader batch; distinct by hash of (configuration, ops); at most 100000 are recorded per shard, so the count is a lower bound",
    );
    run.assume("feed_one/feed_many insert regardless of the enable flags (documented as 'Feed some data into the cache'); get_cached_values returns the stored contents regardless of the enable flags");
    run.assume("LRU: hits refresh recency in the order the keys were passed, feed_many inserts in iterator order, the order of one batch's inserts is not fixed (every order accepted), get_cached_values does not touch recency");
    run.assume("histories are sequential, so enable/disable never falls between a dispatch and its completion");
    run.assume("LruCache capacity 0 is outside the documented domain and is not generated");
    run.set_floors(2000, 500);
    for c in [
        "cache_hits",
        "loads_partly_cache_served",
        "lru_evictions_in_model",
        "loader_batches",
        "get_cached_values_checked",
        "loads_while_cache_disabled",
        "feeds_while_cache_disabled",
        "two_key_type_histories",
        "loads_returning_fed_values",
        "immediate_dispatches",
        "timer_dispatches",
    ] {
        run.require_counter(c);
    }
    run.set_max_samples(5);
    let (lines, ok) = selftest();
    run.extra("monitor_selftest", json!({"ok": ok, "cases": lines}));
    if !ok {
        run.inconclusive("monitor self-test failed");
        run.finish();
    }
    if let Some(p) = run.replay.clone() {
        replay(&run, &p);
        run.finish();
    }

    // pinned witnesses first
    {
        let mut acc = Acc::default();
        for (w, h) in witness_hists() {
            let ex = exec_hist(&h);
            let ok = judge(&run, &mut acc, &h, &ex, Some(w));
            run.count("pinned_witnesses_run", 1);
            if ok {
                run.count("pinned_witnesses_behaving", 1);
            }
        }
        acc.flush(&run);
    }

    let enable_unseen = run.feature("enable_cache_before_first_use");
    let n = run.scale(12_000, 1_500_000);
    let guard = std::time::Instant::now() + Duration::from_secs(run.scale(45, 480));
    std::thread::scope(|s| {
        for shard in 0..16u64 {
            let run = &run;
            s.spawn(move || {
                let mut acc = Acc::default();
                let mut r = Rng::new(rng::mix(&[run.seed, 29, shard]));
                let mut reported = 0;
                let mut recorded = 0usize;
                for it in 0..n {
                    if it % 512 == 0 && std::time::Instant::now() > guard {
                        acc.c("shards_stopped_at_wall_clock_guard", 1);
                        break;
                    }
                    // the feature is exercised in one history out of eight, so a defect behind it
                    // cannot mask the rest of the workload
                    let allow = enable_unseen && it % 8 == 0;
                    let (h, info) = gen_hist(&mut r, allow);
                    let ex = exec_hist(&h);
                    let ok = judge(run, &mut acc, &h, &ex, None);
                    acc.c("operations_executed", ex.at_op as u64);
                    acc.c("loads_while_cache_disabled", info.loads_while_disabled);
                    acc.c("feeds_while_cache_disabled", info.feeds_while_disabled);
                    if info.two_types {
                        acc.c("two_key_type_histories", 1);
                    }
                    if info.enable_on_unseen {
                        acc.c("histories_with_enable_cache_before_first_use", 1);
                    }
                    for f in &info.first_ops {
                        acc.c(&format!("first_op_on_fresh_key_type:{f}"), 1);
                    }
                    acc.c(&format!("histories:{}", match h.cache { CacheKind::Lru(_) => "LruCache".to_string(), c => c.name() }), 1);
                    if shard == 0 && (it == 3 || it == 4) {
                        acc.samples.push(json!({"config": format!("{} max_batch_size={} auto_open={}", h.cache.name(), h.max_batch, h.auto_open), "ops": h.ops, "log": ex.log}));
                    }
                    if !ok {
                        reported += 1;
                    }
                    // at most 100000 distinct cases are recorded per shard (the count is a lower bound)
                    if acc.distinct.len() >= 20_000 {
                        recorded += acc.distinct.len();
                        acc.flush(run);
                    }
                    if recorded >= 100_000 {
                        acc.record_distinct = false;
                    }
                }
                acc.c("histories_with_violation", reported);
                acc.flush(run);
            });
        }
    });
    run.finish();
}
