//! Shared DataLoader harness pieces for C28 / C29: key and value types, the
//! append-only event log, the harness loader, and the offline monitor (rules
//! D1–D6 of DESIGN.md appendix A.5 plus the cache reference model).
//!
//! Values carry their provenance: the harness loader returns `(k, Batch(b))`
//! for key `k` in batch `b`, fed values are `(k, Feed(n))`. A returned value
//! therefore identifies the batch (or feed) it came from.

use std::cell::RefCell;
use std::collections::{BTreeMap, BTreeSet, HashMap};
use std::future::Future;
use std::hash::Hash;
use std::pin::Pin;
use std::sync::atomic::{AtomicBool, AtomicU32, Ordering};
use std::sync::{Arc, Mutex};
use std::task::{Context, Poll};

use async_graphql::dataloader::Loader;
use futures_util::future::BoxFuture;
use serde::{Deserialize, Serialize};

// ---------------------------------------------------------------- keys / values

pub trait HKey: Send + Sync + Hash + Eq + Clone + 'static {
    const TAG: u8;
    fn mk(k: u8) -> Self;
    fn id(&self) -> u8;
}

#[derive(Clone, PartialEq, Eq, Hash, Debug)]
pub struct KA(pub u8);
#[derive(Clone, PartialEq, Eq, Hash, Debug)]
pub struct KB(pub u8);

impl HKey for KA {
    const TAG: u8 = 0;
    fn mk(k: u8) -> Self {
        KA(k)
    }
    fn id(&self) -> u8 {
        self.0
    }
}
impl HKey for KB {
    const TAG: u8 = 1;
    fn mk(k: u8) -> Self {
        KB(k)
    }
    fn id(&self) -> u8 {
        self.0
    }
}

#[derive(Clone, Copy, PartialEq, Eq, Hash, Debug, PartialOrd, Ord, Serialize, Deserialize)]
pub enum Src {
    Batch(u32),
    Feed(u32),
}

#[derive(Clone, Copy, PartialEq, Eq, Hash, Debug, PartialOrd, Ord, Serialize, Deserialize)]
pub struct Val {
    pub k: u8,
    pub src: Src,
}

#[derive(Clone, Debug, PartialEq, Eq)]
pub struct LoadErr(pub u32);

pub type VMap = BTreeMap<u8, Val>;
pub type Res = Result<VMap, u32>;

#[derive(Clone, Copy, PartialEq, Eq, Debug, Serialize, Deserialize, PartialOrd, Ord)]
pub enum CacheKind {
    None,
    HashMap,
    Lru(usize),
}

impl CacheKind {
    pub fn name(&self) -> String {
        match self {
            CacheKind::None => "NoCache".into(),
            CacheKind::HashMap => "HashMapCache".into(),
            CacheKind::Lru(c) => format!("LruCache({c})"),
        }
    }
}

// ---------------------------------------------------------------- event log

#[derive(Clone, Debug, PartialEq, Serialize, Deserialize)]
pub enum Ev {
    /// client boundary: about to invoke load_one / load_many
    Call { i: u32, t: u8, keys: Vec<u8>, one: bool },
    /// client boundary: the load replied
    Ret { i: u32, res: Res },
    /// the client dropped (cancelled) the load future before it replied
    Dropped { i: u32 },
    BatchStart { b: u32, t: u8, keys: Vec<u8>, via_timer: bool },
    BatchEnd { b: u32, res: Res },
    Feed { t: u8, entries: Vec<(u8, Val)> },
    Clear { t: u8 },
    ClearOne { t: u8, k: u8 },
    Enable { t: u8, on: bool },
    EnableAll { on: bool },
    /// observation: get_cached_values returned this map
    Cached { t: u8, map: VMap },
}

#[derive(Default)]
pub struct Log {
    ev: Mutex<Vec<Ev>>,
}

impl Log {
    /// Append; the index is the global sequence number.
    pub fn push(&self, e: Ev) -> usize {
        let mut g = self.ev.lock().unwrap_or_else(|p| p.into_inner());
        g.push(e);
        g.len() - 1
    }
    pub fn snapshot(&self) -> Vec<Ev> {
        self.ev.lock().unwrap_or_else(|p| p.into_inner()).clone()
    }
    pub fn len(&self) -> usize {
        self.ev.lock().unwrap_or_else(|p| p.into_inner()).len()
    }
}

// ---------------------------------------------------------------- task tagging
// Spawned tasks are wrapped so that the harness timer / loader can tell which
// spawned task they run in: a batch started by a task that asked for a timer is
// a timer dispatch, otherwise an immediate dispatch.

thread_local! {
    static CUR_TASK: RefCell<Option<Arc<AtomicBool>>> = const { RefCell::new(None) };
}

pub struct Tagged<F> {
    fut: Pin<Box<F>>,
    used_timer: Arc<AtomicBool>,
}

impl<F: Future> Tagged<F> {
    pub fn new(f: F) -> Self {
        Tagged {
            fut: Box::pin(f),
            used_timer: Arc::new(AtomicBool::new(false)),
        }
    }
}

struct Restore(Option<Arc<AtomicBool>>);
impl Drop for Restore {
    fn drop(&mut self) {
        let prev = self.0.take();
        CUR_TASK.with(|c| *c.borrow_mut() = prev);
    }
}

impl<F: Future> Future for Tagged<F> {
    type Output = F::Output;
    fn poll(mut self: Pin<&mut Self>, cx: &mut Context<'_>) -> Poll<F::Output> {
        let prev = CUR_TASK.with(|c| c.borrow_mut().replace(self.used_timer.clone()));
        let _g = Restore(prev);
        self.fut.as_mut().poll(cx)
    }
}

pub fn mark_timer_used() {
    CUR_TASK.with(|c| {
        if let Some(f) = c.borrow().as_ref() {
            f.store(true, Ordering::SeqCst);
        }
    });
}

pub fn current_task_used_timer() -> bool {
    CUR_TASK.with(|c| c.borrow().as_ref().map(|f| f.load(Ordering::SeqCst)).unwrap_or(false))
}

// ---------------------------------------------------------------- fault plan

#[derive(Clone, Debug, Default, Serialize, Deserialize, PartialEq)]
pub struct Fault {
    /// batch ids whose load returns Err(e_b)
    pub fail: Vec<u32>,
    /// (batch id or u32::MAX for every batch, key) omitted from the result
    pub omit: Vec<(u32, u8)>,
}

impl Fault {
    pub fn fails(&self, b: u32) -> bool {
        self.fail.contains(&b)
    }
    pub fn omits(&self, b: u32, k: u8) -> bool {
        self.omit.iter().any(|(bb, kk)| (*bb == b || *bb == u32::MAX) && *kk == k)
    }
}

// ---------------------------------------------------------------- harness loader

pub type Pause = Box<dyn Fn(u32) -> BoxFuture<'static, ()> + Send + Sync>;

/// Control over the iteration order of the `HashMap` a batch returns. The
/// DataLoader fills its cache by iterating that map, so with an LRU cache the
/// (normally `RandomState`-dependent) order decides recency and eviction. The
/// schedule chooser picks a permutation rank when it opens "loader#b"; the
/// loader then builds a map that iterates in exactly that order. This turns
/// the only schedule-independent nondeterminism of the DataLoader into an
/// enumerated choice.
#[derive(Default)]
pub struct OrderCtl {
    /// LRU capacity: only the order of the last `cap` inserted entries is observable
    pub cap: usize,
    /// batch id -> number of entries the batch will return (2..=4 only)
    pub want: BTreeMap<u32, usize>,
    /// batch id -> chosen rank into `order_choices(m, cap)`
    pub perm: BTreeMap<u32, usize>,
}

/// The insertion orders of `m` entries that an LRU cache of capacity `cap` can
/// tell apart: an LRU holds the most recently used keys, so only the ordered
/// choice of the last min(m, cap) inserted entries matters. One full
/// permutation per distinguishable order.
pub fn order_choices(m: usize, cap: usize) -> Vec<Vec<usize>> {
    let s = m.min(cap.max(1));
    let mut seen: BTreeSet<Vec<usize>> = BTreeSet::new();
    let mut out = vec![];
    for r in 0..factorial(m) {
        let p = nth_perm(m, r);
        if seen.insert(p[m - s..].to_vec()) {
            out.push(p);
        }
    }
    out
}

pub fn factorial(n: usize) -> usize {
    (1..=n).product::<usize>().max(1)
}

/// The `rank`-th permutation (lexicographic by removal index) of 0..n.
fn nth_perm(n: usize, mut rank: usize) -> Vec<usize> {
    let mut items: Vec<usize> = (0..n).collect();
    let mut out = vec![];
    for i in (1..=n).rev() {
        let f = factorial(i - 1);
        let j = (rank / f).min(items.len() - 1);
        rank %= f;
        out.push(items.remove(j));
    }
    out
}

pub struct HLoader {
    pub log: Arc<Log>,
    pub fault: Fault,
    pub next_batch: AtomicU32,
    /// what the loader suspends on between batch_start and batch_end
    pub pause: Pause,
    pub order: Option<Arc<Mutex<OrderCtl>>>,
}

impl HLoader {
    pub fn new(log: Arc<Log>, fault: Fault, pause: Pause) -> Self {
        HLoader {
            log,
            fault,
            next_batch: AtomicU32::new(0),
            pause,
            order: None,
        }
    }
}

impl<K: HKey> Loader<K> for HLoader {
    type Value = Val;
    type Error = LoadErr;

    async fn load(&self, keys: &[K]) -> Result<HashMap<K, Val>, LoadErr> {
        let b = self.next_batch.fetch_add(1, Ordering::SeqCst);
        let ids: Vec<u8> = keys.iter().map(|k| k.id()).collect();
        let via_timer = current_task_used_timer();
        self.log.push(Ev::BatchStart {
            b,
            t: K::TAG,
            keys: ids,
            via_timer,
        });
        let fails = self.fault.fails(b);
        let mut entries: Vec<(K, Val)> = vec![];
        if !fails {
            for k in keys {
                if self.fault.omits(b, k.id()) || entries.iter().any(|e| e.0 == *k) {
                    continue;
                }
                entries.push((
                    k.clone(),
                    Val {
                        k: k.id(),
                        src: Src::Batch(b),
                    },
                ));
            }
            entries.sort_by_key(|e| e.0.id());
        }
        if let Some(ctl) = &self.order {
            if (2..=4).contains(&entries.len()) {
                ctl.lock().unwrap().want.insert(b, entries.len());
            }
        }
        (self.pause)(b).await;
        if fails {
            self.log.push(Ev::BatchEnd { b, res: Err(b) });
            return Err(LoadErr(b));
        }
        let rec: VMap = entries.iter().map(|(k, v)| (k.id(), *v)).collect();
        let rank = self.order.as_ref().and_then(|c| c.lock().unwrap().perm.remove(&b));
        let mut out: HashMap<K, Val> = entries.iter().cloned().collect();
        if let Some(rank) = rank {
            let cap = self.order.as_ref().map(|c| c.lock().unwrap().cap).unwrap_or(usize::MAX);
            let choices = order_choices(entries.len(), cap);
            let target: Vec<u8> = choices[rank.min(choices.len() - 1)].iter().map(|i| entries[*i].0.id()).collect();
            // a fresh HashMap gets fresh RandomState keys: retry until it iterates in the wanted order
            for _ in 0..100_000 {
                if out.keys().map(|k| k.id()).eq(target.iter().copied()) {
                    break;
                }
                out = entries.iter().cloned().collect();
            }
        }
        self.log.push(Ev::BatchEnd { b, res: Ok(rec) });
        Ok(out)
    }
}

// ---------------------------------------------------------------- cache reference model
// One *possible* cache state. A successful batch inserts a set of values whose
// relative order the property does not fix, so the monitor carries the set of
// all states still consistent with what was observed.

#[derive(Clone, PartialEq, Eq, PartialOrd, Ord, Debug)]
struct MState {
    /// LRU: most recent first. HashMap: sorted by key. NoCache: always empty.
    store: Vec<(u8, Val)>,
    /// for calls in flight: what the cache served at call time in this state
    pred: BTreeMap<u32, VMap>,
}

thread_local! {
    static EVICTIONS: std::cell::Cell<u64> = const { std::cell::Cell::new(0) };
}

impl MState {
    fn get(&mut self, k: u8, kind: CacheKind) -> Option<Val> {
        let pos = self.store.iter().position(|e| e.0 == k)?;
        let v = self.store[pos].1;
        if let CacheKind::Lru(_) = kind {
            let e = self.store.remove(pos);
            self.store.insert(0, e);
        }
        Some(v)
    }
    fn put(&mut self, k: u8, v: Val, kind: CacheKind) {
        match kind {
            CacheKind::None => {}
            CacheKind::HashMap => {
                match self.store.binary_search_by_key(&k, |e| e.0) {
                    Ok(p) => self.store[p].1 = v,
                    Err(p) => self.store.insert(p, (k, v)),
                }
            }
            CacheKind::Lru(c) => {
                if let Some(p) = self.store.iter().position(|e| e.0 == k) {
                    self.store.remove(p);
                }
                self.store.insert(0, (k, v));
                while self.store.len() > c {
                    self.store.pop();
                    EVICTIONS.with(|e| e.set(e.get() + 1));
                }
            }
        }
    }
    fn remove(&mut self, k: u8) {
        self.store.retain(|e| e.0 != k);
    }
    fn contents(&self) -> VMap {
        self.store.iter().cloned().collect()
    }
}

/// All states reachable from `s` by inserting the entries of `v` in some order.
fn insert_unordered(s: &MState, v: &VMap, kind: CacheKind, out: &mut BTreeSet<MState>) -> bool {
    let entries: Vec<(u8, Val)> = v.iter().map(|(k, x)| (*k, *x)).collect();
    match kind {
        CacheKind::None => {
            out.insert(s.clone());
            true
        }
        CacheKind::HashMap => {
            let mut s2 = s.clone();
            for (k, x) in &entries {
                s2.put(*k, *x, kind);
            }
            out.insert(s2);
            true
        }
        CacheKind::Lru(_) => {
            if entries.len() > 6 {
                return false;
            }
            let mut idx: Vec<usize> = (0..entries.len()).collect();
            permute(&mut idx, 0, &mut |p| {
                let mut s2 = s.clone();
                for &i in p {
                    s2.put(entries[i].0, entries[i].1, kind);
                }
                out.insert(s2);
            });
            true
        }
    }
}

fn permute(v: &mut Vec<usize>, at: usize, f: &mut dyn FnMut(&[usize])) {
    if at + 1 >= v.len() {
        f(v);
        return;
    }
    for i in at..v.len() {
        v.swap(at, i);
        permute(v, at + 1, f);
        v.swap(at, i);
    }
}

// ---------------------------------------------------------------- monitor

#[derive(Clone, Debug)]
pub struct MonCfg {
    pub cache: CacheKind,
    pub max_batch: usize,
}

#[derive(Default, Debug, Clone)]
pub struct MonOut {
    /// (rule, explanation)
    pub viol: Vec<(String, String)>,
    pub cache_hits: u64,
    pub partial_hits: u64,
    pub full_hits: u64,
    pub evictions: u64,
    pub errors_delivered: u64,
    pub loads_checked: u64,
    pub cached_checked: u64,
    pub max_states: usize,
    /// the exact cache model was abandoned (too many possible LRU states) and
    /// the relaxed check was used instead
    pub blowup: bool,
}

impl MonOut {
    fn v(&mut self, rule: &str, msg: String) {
        self.viol.push((rule.to_string(), msg));
    }
    pub fn rules(&self) -> Vec<String> {
        let mut r: Vec<String> = self.viol.iter().map(|x| x.0.clone()).collect();
        r.sort();
        r.dedup();
        r
    }
}

struct CallInfo {
    t: u8,
    keys: Vec<u8>,
    seq: usize,
    /// (seq, Some(result)) for a ret, (seq, None) for dropped
    end: Option<(usize, Option<Res>)>,
}

struct BatchInfo {
    b: u32,
    t: u8,
    keys: Vec<u8>,
    start: usize,
    end: Option<(usize, Res)>,
}

fn distinct(keys: &[u8]) -> BTreeSet<u8> {
    keys.iter().copied().collect()
}

/// Does the reply `res` (logged at `ret_seq`) follow from the cache having
/// served `served` at call time? (rule D3)
fn explain(served: &VMap, call: &CallInfo, res: &Res, ret_seq: usize, batches: &[BatchInfo]) -> Result<(), String> {
    let rest: BTreeSet<u8> = distinct(&call.keys).into_iter().filter(|k| !served.contains_key(k)).collect();
    if rest.is_empty() {
        return if *res == Ok(served.clone()) {
            Ok(())
        } else {
            Err(format!("every key was cache-served, expected Ok({served:?}), got {res:?}"))
        };
    }
    let mut cands = vec![];
    for b in batches {
        if b.t != call.t || b.start <= call.seq {
            continue;
        }
        let Some((eseq, bres)) = &b.end else { continue };
        if *eseq >= ret_seq || !rest.iter().all(|k| b.keys.contains(k)) {
            continue;
        }
        let want: Res = match bres {
            Err(e) => Err(*e),
            Ok(v) => {
                let mut m = served.clone();
                for k in &rest {
                    if let Some(x) = v.get(k) {
                        m.insert(*k, *x);
                    }
                }
                Ok(m)
            }
        };
        if want == *res {
            return Ok(());
        }
        cands.push(format!("batch {} would give {:?}", b.b, want));
    }
    Err(format!(
        "keys {:?} not cache-served (cache served {:?}); no single batch that started after the call and ended before the reply and contains all of them explains the reply {:?}; candidates: [{}]",
        rest,
        served,
        res,
        cands.join("; ")
    ))
}

/// Offline checker over one recorded history.
///
/// `quiescent`: the history ends at a quiescent point (rule D5/D4 apply).
/// `exact`: events are totally ordered as logged and the cache model is exact
/// (vsched); otherwise (real threads) "cache-served" is relaxed to "any value
/// inserted for k before ret(i)".
pub fn check_history(cfg: &MonCfg, log: &[Ev], quiescent: bool, exact: bool) -> MonOut {
    let mut out = MonOut::default();
    EVICTIONS.with(|e| e.set(0));
    let mut calls: BTreeMap<u32, CallInfo> = BTreeMap::new();
    let mut batches: Vec<BatchInfo> = vec![];
    let mut tags: BTreeSet<u8> = BTreeSet::new();
    for (seq, ev) in log.iter().enumerate() {
        match ev {
            Ev::Call { i, t, keys, .. } => {
                tags.insert(*t);
                if calls
                    .insert(
                        *i,
                        CallInfo {
                            t: *t,
                            keys: keys.clone(),
                            seq,
                            end: None,
                        },
                    )
                    .is_some()
                {
                    out.v("HARNESS", format!("call id {i} logged twice"));
                }
            }
            Ev::Ret { i, res } => match calls.get_mut(i) {
                Some(c) if c.end.is_none() => c.end = Some((seq, Some(res.clone()))),
                _ => out.v("HARNESS", format!("ret({i}) without an open call")),
            },
            Ev::Dropped { i } => match calls.get_mut(i) {
                Some(c) if c.end.is_none() => c.end = Some((seq, None)),
                _ => out.v("HARNESS", format!("dropped({i}) without an open call")),
            },
            Ev::BatchStart { b, t, keys, .. } => {
                tags.insert(*t);
                batches.push(BatchInfo {
                    b: *b,
                    t: *t,
                    keys: keys.clone(),
                    start: seq,
                    end: None,
                });
            }
            Ev::BatchEnd { b, res } => match batches.iter_mut().find(|x| x.b == *b) {
                Some(x) if x.end.is_none() => x.end = Some((seq, res.clone())),
                _ => out.v("HARNESS", format!("batch_end({b}) without an open batch")),
            },
            Ev::Feed { t, .. } | Ev::Clear { t } | Ev::ClearOne { t, .. } | Ev::Enable { t, .. } | Ev::Cached { t, .. } => {
                tags.insert(*t);
            }
            Ev::EnableAll { .. } => {}
        }
    }

    // D1, D2
    for b in &batches {
        let d = distinct(&b.keys);
        if d.len() != b.keys.len() {
            out.v("D1", format!("batch {} was given a key twice: {:?}", b.b, b.keys));
        }
        let largest = calls.values().filter(|c| c.t == b.t).map(|c| c.keys.len()).max().unwrap_or(0);
        if (b.keys.len() as i64) - (cfg.max_batch as i64) >= largest as i64 {
            out.v(
                "D2",
                format!(
                    "batch {} has {} keys {:?}: exceeds max_batch_size {} by {} which is not less than the largest single request ({} keys)",
                    b.b,
                    b.keys.len(),
                    b.keys,
                    cfg.max_batch,
                    b.keys.len() as i64 - cfg.max_batch as i64,
                    largest
                ),
            );
        }
    }

    for &t in &tags {
        let mut done = false;
        if exact {
            done = check_exact(cfg, log, t, &calls, &batches, quiescent, &mut out);
            if !done {
                out.blowup = true;
            }
        }
        if !done {
            check_relaxed(cfg, log, t, &calls, &batches, quiescent, &mut out);
        }
    }
    out.evictions = EVICTIONS.with(|e| e.get());
    out
}

const MAX_STATES: usize = 4000;

/// Exact mode. Returns false (having reported nothing) when the set of possible
/// LRU states grows too large; the caller then falls back to the relaxed check.
fn check_exact(
    cfg: &MonCfg,
    log: &[Ev],
    t: u8,
    calls: &BTreeMap<u32, CallInfo>,
    batches: &[BatchInfo],
    quiescent: bool,
    out: &mut MonOut,
) -> bool {
    let kind = cfg.cache;
    let mut local = MonOut::default();
    let mut states: BTreeSet<MState> = BTreeSet::new();
    states.insert(MState {
        store: vec![],
        pred: BTreeMap::new(),
    });
    let mut en_t = true;
    let mut en_all = true;
    let batch_t = |b: u32| batches.iter().find(|x| x.b == b).map(|x| x.t);
    for (seq, ev) in log.iter().enumerate() {
        match ev {
            Ev::Call { i, t: tt, keys, .. } if *tt == t => {
                let serving = en_t && en_all && kind != CacheKind::None;
                states = states
                    .into_iter()
                    .map(|mut s| {
                        let mut served = VMap::new();
                        if serving {
                            for k in keys {
                                if let Some(v) = s.get(*k, kind) {
                                    served.insert(*k, v);
                                }
                            }
                        }
                        s.pred.insert(*i, served);
                        s
                    })
                    .collect();
            }
            Ev::Ret { i, res } if calls.get(i).map(|c| c.t) == Some(t) => {
                let call = &calls[i];
                let mut ok: BTreeSet<MState> = BTreeSet::new();
                let mut first_err: Option<String> = None;
                let mut stat: Option<(usize, usize)> = None;
                for s in &states {
                    let served = s.pred.get(i).cloned().unwrap_or_default();
                    match explain(&served, call, res, seq, batches) {
                        Ok(()) => {
                            if stat.is_none() {
                                stat = Some((served.len(), distinct(&call.keys).len()));
                            }
                            let mut s2 = s.clone();
                            s2.pred.remove(i);
                            ok.insert(s2);
                        }
                        Err(e) => {
                            first_err.get_or_insert(e);
                        }
                    }
                }
                local.loads_checked += 1;
                if res.is_err() {
                    local.errors_delivered += 1;
                }
                if ok.is_empty() {
                    local.v(
                        "D3",
                        format!(
                            "load {i} keys {:?} (call at seq {}, reply at seq {seq}): {}",
                            call.keys,
                            call.seq,
                            first_err.unwrap_or_default()
                        ),
                    );
                    states = states
                        .into_iter()
                        .map(|mut s| {
                            s.pred.remove(i);
                            s
                        })
                        .collect();
                } else {
                    if let Some((h, n)) = stat {
                        local.cache_hits += h as u64;
                        if h > 0 && h < n {
                            local.partial_hits += 1;
                        }
                        if h > 0 && h == n {
                            local.full_hits += 1;
                        }
                    }
                    states = ok;
                }
            }
            Ev::Dropped { i } if calls.get(i).map(|c| c.t) == Some(t) => {
                states = states
                    .into_iter()
                    .map(|mut s| {
                        s.pred.remove(i);
                        s
                    })
                    .collect();
            }
            Ev::BatchEnd { b, res: Ok(v) } if batch_t(*b) == Some(t) => {
                let filling = en_t && en_all && kind != CacheKind::None;
                if filling {
                    let mut next = BTreeSet::new();
                    for s in &states {
                        if !insert_unordered(s, v, kind, &mut next) || next.len() > MAX_STATES {
                            return false;
                        }
                    }
                    states = next;
                }
            }
            Ev::Feed { t: tt, entries } if *tt == t => {
                states = states
                    .into_iter()
                    .map(|mut s| {
                        for (k, v) in entries {
                            s.put(*k, *v, kind);
                        }
                        s
                    })
                    .collect();
            }
            Ev::Clear { t: tt } if *tt == t => {
                states = states
                    .into_iter()
                    .map(|mut s| {
                        s.store.clear();
                        s
                    })
                    .collect();
            }
            Ev::ClearOne { t: tt, k } if *tt == t => {
                states = states
                    .into_iter()
                    .map(|mut s| {
                        s.remove(*k);
                        s
                    })
                    .collect();
            }
            Ev::Enable { t: tt, on } if *tt == t => en_t = *on,
            Ev::EnableAll { on } => en_all = *on,
            Ev::Cached { t: tt, map } if *tt == t => {
                local.cached_checked += 1;
                let ok: BTreeSet<MState> = states.iter().filter(|s| s.contents() == *map).cloned().collect();
                if ok.is_empty() {
                    let models: Vec<String> = states.iter().take(4).map(|s| format!("{:?}", s.contents())).collect();
                    local.v(
                        "C2",
                        format!(
                            "get_cached_values (seq {seq}) returned {:?}; the cache model holds {}",
                            map,
                            models.join(" or ")
                        ),
                    );
                } else {
                    states = ok;
                }
            }
            _ => {}
        }
        local.max_states = local.max_states.max(states.len());
    }
    if quiescent {
        for (i, c) in calls.iter().filter(|(_, c)| c.t == t && c.end.is_none()) {
            local.v(
                "D5",
                format!(
                    "load {i} keys {:?} (call at seq {}) has no reply at quiescence (no runnable task, no armed timer, no open loader call)",
                    c.keys, c.seq
                ),
            );
            // D4: in every possible state some uncached key never reached the loader
            let mut missing_all: Option<BTreeSet<u8>> = None;
            let mut every = true;
            for s in &states {
                let served = s.pred.get(i).cloned().unwrap_or_default();
                let missing: BTreeSet<u8> = distinct(&c.keys)
                    .into_iter()
                    .filter(|k| !served.contains_key(k))
                    .filter(|k| !batches.iter().any(|b| b.t == t && b.start > c.seq && b.keys.contains(k)))
                    .collect();
                if missing.is_empty() {
                    every = false;
                } else if missing_all.is_none() {
                    missing_all = Some(missing);
                }
            }
            if every {
                if let Some(m) = missing_all {
                    local.v(
                        "D4",
                        format!("load {i}: keys {m:?} were not cache-served and were never passed to the loader"),
                    );
                }
            }
        }
    }
    out.viol.extend(local.viol);
    out.cache_hits += local.cache_hits;
    out.partial_hits += local.partial_hits;
    out.full_hits += local.full_hits;
    out.errors_delivered += local.errors_delivered;
    out.loads_checked += local.loads_checked;
    out.cached_checked += local.cached_checked;
    out.max_states = out.max_states.max(local.max_states);
    true
}

/// Relaxed mode (real threads, or exact model abandoned): a value counts as
/// possibly cache-served when the cache kind can hold values, serving was not
/// certainly off, and some insertion of exactly that value for the key was
/// logged before the reply. No recency/eviction/clear reasoning.
fn check_relaxed(
    cfg: &MonCfg,
    log: &[Ev],
    t: u8,
    calls: &BTreeMap<u32, CallInfo>,
    batches: &[BatchInfo],
    quiescent: bool,
    out: &mut MonOut,
) {
    let caching = cfg.cache != CacheKind::None;
    // insertions: (seq, key, value)
    let mut ins: Vec<(usize, u8, Val)> = vec![];
    for (seq, ev) in log.iter().enumerate() {
        match ev {
            Ev::BatchEnd { b, res: Ok(v) } if batches.iter().any(|x| x.b == *b && x.t == t) => {
                for (k, x) in v {
                    ins.push((seq, *k, *x));
                }
            }
            Ev::Feed { t: tt, entries } if *tt == t => {
                for (k, x) in entries {
                    ins.push((seq, *k, *x));
                }
            }
            _ => {}
        }
    }
    let maybe_cached = |k: u8, v: Option<&Val>, before: usize| -> bool {
        match v {
            None => false,
            Some(v) => caching && ins.iter().any(|(s, kk, vv)| *s < before && *kk == k && vv == v),
        }
    };
    let any_cached = |k: u8, before: usize| -> bool { caching && ins.iter().any(|(s, kk, _)| *s < before && *kk == k) };
    for (i, c) in calls.iter().filter(|(_, c)| c.t == t) {
        let keys = distinct(&c.keys);
        match &c.end {
            Some((rseq, Some(res))) => {
                out.loads_checked += 1;
                let mut okay = false;
                let mut why = String::new();
                match res {
                    Ok(map) => {
                        if let Some(k) = map.keys().find(|k| !keys.contains(k)) {
                            out.v("D3", format!("load {i} keys {:?}: reply contains key {k} that was not requested: {map:?}", c.keys));
                            continue;
                        }
                        // without any batch: every key must be cache-explained
                        if keys.iter().all(|k| maybe_cached(*k, map.get(k), *rseq)) {
                            okay = true;
                            out.cache_hits += keys.len() as u64;
                            if !keys.is_empty() {
                                out.full_hits += 1;
                            }
                        }
                        if keys.is_empty() && map.is_empty() {
                            okay = true;
                        }
                        if !okay {
                            for b in batches.iter().filter(|b| b.t == t && b.start > c.seq) {
                                let Some((eseq, Ok(v))) = &b.end else { continue };
                                if *eseq >= *rseq {
                                    continue;
                                }
                                let mut hits = 0;
                                let fits = keys.iter().all(|k| {
                                    let from_batch = b.keys.contains(k) && map.get(k) == v.get(k);
                                    if from_batch {
                                        return true;
                                    }
                                    if maybe_cached(*k, map.get(k), *rseq) {
                                        hits += 1;
                                        return true;
                                    }
                                    false
                                });
                                if fits {
                                    okay = true;
                                    out.cache_hits += hits;
                                    if hits > 0 {
                                        out.partial_hits += 1;
                                    }
                                    break;
                                }
                            }
                        }
                        if !okay {
                            why = format!("no batch started after the call and ended before the reply explains Ok({map:?}) together with possibly cached values");
                        }
                    }
                    Err(e) => {
                        out.errors_delivered += 1;
                        for b in batches.iter().filter(|b| b.t == t && b.start > c.seq) {
                            let Some((eseq, Err(be))) = &b.end else { continue };
                            if *eseq >= *rseq || be != e {
                                continue;
                            }
                            let joined = keys.iter().any(|k| b.keys.contains(k));
                            let fits = keys.iter().all(|k| b.keys.contains(k) || any_cached(*k, *rseq));
                            if joined && fits {
                                okay = true;
                                break;
                            }
                        }
                        if !okay {
                            why = format!("reply Err({e}) but no failed batch with that error contains the load's uncached keys");
                        }
                    }
                }
                if !okay {
                    out.v(
                        "D3",
                        format!("load {i} keys {:?} (call at seq {}, reply at seq {rseq}): {why}", c.keys, c.seq),
                    );
                }
            }
            Some((_, None)) => {}
            None => {
                if quiescent {
                    out.v(
                        "D5",
                        format!("load {i} keys {:?} (call at seq {}) has no reply at quiescence", c.keys, c.seq),
                    );
                    let missing: Vec<u8> = keys
                        .iter()
                        .copied()
                        .filter(|k| !any_cached(*k, log.len()))
                        .filter(|k| !batches.iter().any(|b| b.t == t && b.start > c.seq && b.keys.contains(k)))
                        .collect();
                    if !missing.is_empty() {
                        out.v(
                            "D4",
                            format!("load {i}: keys {missing:?} cannot have been cache-served and were never passed to the loader"),
                        );
                    }
                }
            }
        }
    }
}

// ---------------------------------------------------------------- monitor self-test

fn val(k: u8, b: u32) -> Val {
    Val { k, src: Src::Batch(b) }
}
fn vm(e: &[(u8, Val)]) -> VMap {
    e.iter().cloned().collect()
}

/// Hand-made histories: (name, config, log, rule expected to be flagged or ""
/// for a good history that must pass).
pub fn selftest_cases() -> Vec<(&'static str, MonCfg, Vec<Ev>, &'static str)> {
    let none = MonCfg {
        cache: CacheKind::None,
        max_batch: 2,
    };
    let hm = MonCfg {
        cache: CacheKind::HashMap,
        max_batch: 2,
    };
    let lru1 = MonCfg {
        cache: CacheKind::Lru(1),
        max_batch: 3,
    };
    let call = |i: u32, keys: &[u8]| Ev::Call {
        i,
        t: 0,
        keys: keys.to_vec(),
        one: false,
    };
    let bs = |b: u32, keys: &[u8]| Ev::BatchStart {
        b,
        t: 0,
        keys: keys.to_vec(),
        via_timer: true,
    };
    let be = |b: u32, keys: &[u8]| Ev::BatchEnd {
        b,
        res: Ok(keys.iter().map(|k| (*k, val(*k, b))).collect()),
    };
    let ret = |i: u32, e: &[(u8, Val)]| Ev::Ret { i, res: Ok(vm(e)) };
    vec![
        (
            "good: two loads share one batch",
            none.clone(),
            vec![
                call(0, &[1]),
                call(1, &[2]),
                bs(0, &[1, 2]),
                be(0, &[1, 2]),
                ret(0, &[(1, val(1, 0))]),
                ret(1, &[(2, val(2, 0))]),
            ],
            "",
        ),
        (
            "good: cache hit after a batch, partial hit, omitted key",
            hm.clone(),
            vec![
                call(0, &[1]),
                bs(0, &[1]),
                be(0, &[1]),
                ret(0, &[(1, val(1, 0))]),
                call(1, &[1, 2]),
                bs(1, &[2]),
                Ev::BatchEnd { b: 1, res: Ok(vm(&[])) },
                ret(1, &[(1, val(1, 0))]),
                call(2, &[1]),
                ret(2, &[(1, val(1, 0))]),
            ],
            "",
        ),
        (
            "good: failed batch delivered as error; dropped waiter needs no reply",
            none.clone(),
            vec![
                call(0, &[1]),
                call(1, &[2]),
                Ev::Dropped { i: 1 },
                bs(0, &[1, 2]),
                Ev::BatchEnd { b: 0, res: Err(0) },
                Ev::Ret { i: 0, res: Err(0) },
            ],
            "",
        ),
        (
            "good: LRU(1) eviction order unknown inside one batch",
            lru1.clone(),
            vec![
                call(0, &[1, 2]),
                bs(0, &[1, 2]),
                be(0, &[1, 2]),
                ret(0, &[(1, val(1, 0)), (2, val(2, 0))]),
                call(1, &[2]),
                ret(1, &[(2, val(2, 0))]),
                Ev::Cached {
                    t: 0,
                    map: vm(&[(2, val(2, 0))]),
                },
            ],
            "",
        ),
        (
            "bad: duplicate key in batch",
            none.clone(),
            vec![call(0, &[1]), bs(0, &[1, 1]), be(0, &[1]), ret(0, &[(1, val(1, 0))])],
            "D1",
        ),
        (
            "bad: batch exceeds max by the size of the largest request",
            none.clone(),
            vec![
                call(0, &[1]),
                call(1, &[2]),
                call(2, &[3]),
                bs(0, &[1, 2, 3]),
                be(0, &[1, 2, 3]),
                ret(0, &[(1, val(1, 0))]),
                ret(1, &[(2, val(2, 0))]),
                ret(2, &[(3, val(3, 0))]),
            ],
            "D2",
        ),
        (
            "bad: missing ret at quiescence",
            none.clone(),
            vec![call(0, &[1]), call(1, &[2]), bs(0, &[1, 2]), be(0, &[1, 2]), ret(0, &[(1, val(1, 0))])],
            "D5",
        ),
        (
            "bad: key never passed to the loader",
            none.clone(),
            vec![call(0, &[1]), call(1, &[2]), bs(0, &[1]), be(0, &[1]), ret(0, &[(1, val(1, 0))])],
            "D4",
        ),
        (
            "bad: wrong batch value (value of a batch that does not contain the key's load)",
            none.clone(),
            vec![
                call(0, &[1]),
                bs(0, &[1]),
                be(0, &[1]),
                call(1, &[1]),
                bs(1, &[1]),
                be(1, &[1]),
                ret(0, &[(1, val(1, 0))]),
                ret(1, &[(1, val(1, 0))]),
            ],
            "D3",
        ),
        (
            "bad: values from two different batches in one reply",
            none.clone(),
            vec![
                call(0, &[1, 2]),
                bs(0, &[1]),
                be(0, &[1]),
                bs(1, &[2]),
                be(1, &[2]),
                ret(0, &[(1, val(1, 0)), (2, val(2, 1))]),
            ],
            "D3",
        ),
        (
            "bad: error not delivered (batch failed, load got Ok)",
            none.clone(),
            vec![
                call(0, &[1]),
                bs(0, &[1]),
                Ev::BatchEnd { b: 0, res: Err(0) },
                ret(0, &[]),
            ],
            "D3",
        ),
        (
            "bad: error delivered to a load that was not in the failed batch",
            none.clone(),
            vec![
                call(0, &[1]),
                bs(0, &[1]),
                Ev::BatchEnd { b: 0, res: Err(0) },
                Ev::Ret { i: 0, res: Err(0) },
                call(1, &[2]),
                bs(1, &[2]),
                be(1, &[2]),
                Ev::Ret { i: 1, res: Err(0) },
            ],
            "D3",
        ),
        (
            "bad: omitted key invented",
            none.clone(),
            vec![
                call(0, &[1, 2]),
                bs(0, &[1, 2]),
                be(0, &[1]),
                ret(0, &[(1, val(1, 0)), (2, val(2, 0))]),
            ],
            "D3",
        ),
        (
            "bad: stale value with NoCache",
            none.clone(),
            vec![
                call(0, &[1]),
                bs(0, &[1]),
                be(0, &[1]),
                ret(0, &[(1, val(1, 0))]),
                call(1, &[1]),
                ret(1, &[(1, val(1, 0))]),
            ],
            "D3",
        ),
        (
            "bad: cache bypassed (HashMap holds the key, load went to the loader)",
            hm.clone(),
            vec![
                call(0, &[1]),
                bs(0, &[1]),
                be(0, &[1]),
                ret(0, &[(1, val(1, 0))]),
                call(1, &[1]),
                bs(1, &[1]),
                be(1, &[1]),
                ret(1, &[(1, val(1, 1))]),
            ],
            "D3",
        ),
        (
            "bad: batch that started before the call",
            none.clone(),
            vec![
                bs(0, &[1]),
                call(0, &[1]),
                be(0, &[1]),
                ret(0, &[(1, val(1, 0))]),
            ],
            "D3",
        ),
        (
            "bad: LRU(1) serves an evicted key",
            lru1.clone(),
            vec![
                Ev::Feed {
                    t: 0,
                    entries: vec![(1, Val { k: 1, src: Src::Feed(0) }), (2, Val { k: 2, src: Src::Feed(1) })],
                },
                call(0, &[1]),
                ret(0, &[(1, Val { k: 1, src: Src::Feed(0) })]),
            ],
            "D3",
        ),
        (
            "bad: get_cached_values differs from the model",
            hm.clone(),
            vec![
                Ev::Feed {
                    t: 0,
                    entries: vec![(1, Val { k: 1, src: Src::Feed(0) })],
                },
                Ev::Clear { t: 0 },
                Ev::Cached {
                    t: 0,
                    map: vm(&[(1, Val { k: 1, src: Src::Feed(0) })]),
                },
            ],
            "C2",
        ),
        (
            "bad: disabled cache still serves",
            hm.clone(),
            vec![
                Ev::Feed {
                    t: 0,
                    entries: vec![(1, Val { k: 1, src: Src::Feed(0) })],
                },
                Ev::Enable { t: 0, on: false },
                call(0, &[1]),
                ret(0, &[(1, Val { k: 1, src: Src::Feed(0) })]),
            ],
            "D3",
        ),
    ]
}

/// Runs the hand-made histories through the monitor in exact mode and (where
/// the rule does not depend on the exact cache model) in relaxed mode.
/// Returns (lines, all_ok).
pub fn selftest() -> (Vec<String>, bool) {
    let mut lines = vec![];
    let mut all = true;
    for (name, cfg, log, want) in selftest_cases() {
        for exact in [true, false] {
            // rules that need exact cache reasoning are only expected in exact mode
            let cache_dependent = name.contains("bypassed") || name.contains("LRU(1) serves") || name.contains("get_cached") || name.contains("disabled cache");
            if !exact && cache_dependent {
                continue;
            }
            let out = check_history(&cfg, &log, true, exact);
            let rules = out.rules();
            let ok = if want.is_empty() {
                rules.is_empty()
            } else {
                rules.iter().any(|r| r == want)
            };
            all &= ok;
            lines.push(format!(
                "{} [{}] {}: expected {} flagged {:?}",
                if ok { "ok  " } else { "FAIL" },
                if exact { "exact" } else { "relaxed" },
                name,
                if want.is_empty() { "none" } else { want },
                rules
            ));
        }
    }
    (lines, all)
}

#[cfg(test)]
mod tests {
    #[test]
    fn monitor_flags_bad_histories() {
        let (lines, ok) = super::selftest();
        for l in &lines {
            println!("{l}");
        }
        assert!(ok);
    }
}
