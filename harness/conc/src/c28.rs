//! C28 — DataLoader delivers correct batched results under every interleaving.
//!
//! The harness owns everything the DataLoader suspends on: the `Spawn` (tasks
//! go into the vsched loop), the `Timer` (gate "timer#n": virtual time) and the
//! loader's completion (gate "loader#b"). Clients wait on "start#i" before
//! calling and cancelled clients race their load against "cancel#i". Every
//! choice point is enumerated by DFS for small configurations and sampled by
//! random walks for larger ones; the recorded event log is judged offline by
//! `dl::check_history` (rules D1–D6). With an LRU cache the iteration order of
//! the `HashMap` a batch returns (which decides recency / eviction inside the
//! DataLoader and normally depends on `RandomState`) is a choice of the
//! schedule as well (`dl::OrderCtl`), so runs are deterministic and the DFS
//! covers it. Thorough adds the same workload on real threads (`pool.rs`,
//! relaxed cache reasoning) and a Miri run of `src/bin/miri_dl.rs`.

use std::collections::{BTreeMap, BTreeSet, HashSet};
use std::sync::atomic::{AtomicBool, AtomicU32, AtomicUsize, Ordering};
use std::sync::{Arc, Mutex};
use std::time::{Duration, Instant};

use async_graphql::dataloader::{CacheFactory, DataLoader, HashMapCache, LruCache, NoCache};
use async_graphql::runtime::Timer;
use futures_util::FutureExt;
use futures_util::future::{BoxFuture, Either, select};
use futures_util::task::{FutureObj, Spawn, SpawnError};
use serde::{Deserialize, Serialize};
use vh_core::serde_json::{self, Value as J, json};
use vh_core::vsched::{Armed, Chooser, Dfs, Outcome, RandomChooser, ReplayChooser, Sched};
use vh_core::{Rng, Run, catch, rng};

use crate::dl::*;
use crate::pool::{Pool, PoolInner, YieldN};

// ---------------------------------------------------------------- configuration

#[derive(Clone, Debug, Serialize, Deserialize, PartialEq)]
pub struct Req {
    pub keys: Vec<u8>,
    /// use load_one (keys has exactly one element)
    pub one: bool,
    /// race the load against gate "cancel#i" and drop it when the gate wins
    pub cancel: bool,
    /// wait for gate "start#i" before calling
    pub gate: bool,
}

#[derive(Clone, Debug, Serialize, Deserialize, PartialEq)]
pub struct Cfg {
    pub cache: CacheKind,
    pub max_batch: usize,
    /// each client issues its requests one after the other; call ids are
    /// assigned in (client, position) order
    pub clients: Vec<Vec<Req>>,
    pub fault: Fault,
}

impl Cfg {
    fn hash(&self) -> u64 {
        rng::hash_str(&serde_json::to_string(self).unwrap())
    }
    fn mon(&self) -> MonCfg {
        MonCfg {
            cache: self.cache,
            max_batch: self.max_batch,
        }
    }
}

// ---------------------------------------------------------------- vsched adapters

struct VSpawn {
    sched: Sched,
    spawned: Arc<AtomicU32>,
}
impl Spawn for VSpawn {
    fn spawn_obj(&self, future: FutureObj<'static, ()>) -> Result<(), SpawnError> {
        self.spawned.fetch_add(1, Ordering::SeqCst);
        self.sched.spawn(Tagged::new(future));
        Ok(())
    }
}

struct VTimer {
    sched: Sched,
    n: AtomicU32,
}
impl Timer for VTimer {
    fn delay(&self, _d: Duration) -> BoxFuture<'static, ()> {
        mark_timer_used();
        let n = self.n.fetch_add(1, Ordering::SeqCst);
        self.sched.gate(format!("timer#{n}")).boxed()
    }
}

/// What one client does: its requests in order, at the client boundary.
async fn client<C: CacheFactory>(
    dl: Arc<DataLoader<HLoader, C>>,
    log: Arc<Log>,
    reqs: Vec<(u32, Req)>,
    wait_start: Arc<dyn Fn(u32) -> BoxFuture<'static, ()> + Send + Sync>,
    wait_cancel: Arc<dyn Fn(u32) -> BoxFuture<'static, ()> + Send + Sync>,
    done: Arc<AtomicUsize>,
) {
    for (i, r) in reqs {
        if r.gate {
            wait_start(i).await;
        }
        let keys: Vec<KA> = r.keys.iter().map(|k| KA(*k)).collect();
        log.push(Ev::Call {
            i,
            t: KA::TAG,
            keys: r.keys.clone(),
            one: r.one,
        });
        let dl2 = dl.clone();
        let one = r.one;
        let fut = async move {
            if one {
                let k = keys[0].clone();
                dl2.load_one(k.clone())
                    .await
                    .map(|o| o.into_iter().map(|v| (k.0, v)).collect::<VMap>())
            } else {
                dl2.load_many(keys)
                    .await
                    .map(|m| m.into_iter().map(|(k, v)| (k.0, v)).collect::<VMap>())
            }
        };
        let res = if r.cancel {
            let fut = Box::pin(fut);
            match select(fut, wait_cancel(i)).await {
                Either::Left((res, _)) => Some(res),
                Either::Right(((), fut)) => {
                    drop(fut);
                    None
                }
            }
        } else {
            Some(fut.await)
        };
        match res {
            Some(r) => log.push(Ev::Ret {
                i,
                res: r.map_err(|e| e.0),
            }),
            None => log.push(Ev::Dropped { i }),
        };
    }
    done.fetch_add(1, Ordering::SeqCst);
}

fn numbered(cfg: &Cfg) -> Vec<Vec<(u32, Req)>> {
    let mut id = 0u32;
    cfg.clients
        .iter()
        .map(|c| {
            c.iter()
                .map(|r| {
                    id += 1;
                    (id - 1, r.clone())
                })
                .collect()
        })
        .collect()
}

// ---------------------------------------------------------------- one execution

pub struct Exec {
    pub log: Vec<Ev>,
    pub opened: Vec<String>,
    pub choices: Vec<usize>,
    pub branch_points: usize,
    pub outcome: String,
    pub panic: Option<String>,
    pub quiescent: bool,
    pub abstract_states: Vec<String>,
}

/// Records the choices made and the abstract state at every quiescent point.
struct Obs<'a> {
    inner: &'a mut dyn Chooser,
    log: Arc<Log>,
    caching: bool,
    choices: Vec<usize>,
    states: Vec<String>,
    observe: bool,
    /// LRU only: iteration order of each batch's result map is a choice too
    order: Option<Arc<Mutex<OrderCtl>>>,
    orders: Vec<String>,
}

fn abstract_state(log: &[Ev], armed: &[Armed], caching: bool) -> String {
    let mut open_calls: BTreeMap<u32, Vec<u8>> = BTreeMap::new();
    let mut open_batches: BTreeMap<u32, Vec<u8>> = BTreeMap::new();
    let mut cached: BTreeSet<u8> = BTreeSet::new();
    for e in log {
        match e {
            Ev::Call { i, keys, .. } => {
                open_calls.insert(*i, keys.clone());
            }
            Ev::Ret { i, .. } | Ev::Dropped { i } => {
                open_calls.remove(i);
            }
            Ev::BatchStart { b, keys, .. } => {
                let mut k = keys.clone();
                k.sort();
                open_batches.insert(*b, k);
            }
            Ev::BatchEnd { b, res } => {
                open_batches.remove(b);
                if let (Ok(v), true) = (res, caching) {
                    cached.extend(v.keys());
                }
            }
            _ => {}
        }
    }
    let keys: BTreeSet<u8> = open_calls.values().flatten().copied().collect();
    let mut inflight: Vec<&Vec<u8>> = open_batches.values().collect();
    inflight.sort();
    let (mut t, mut l, mut c, mut s) = (0, 0, 0, 0);
    for a in armed {
        match a.label.as_bytes()[0] {
            b't' => t += 1,
            b'l' => l += 1,
            b'c' => c += 1,
            _ => s += 1,
        }
    }
    format!(
        "pending={} keys={:?} inflight={:?} cache_loaded={:?} armed=t{}l{}c{}s{}",
        open_calls.len(),
        keys,
        inflight,
        cached,
        t,
        l,
        c,
        s
    )
}

impl Chooser for Obs<'_> {
    fn choose(&mut self, armed: &[Armed]) -> usize {
        if self.observe {
            let s = abstract_state(&self.log.snapshot(), armed, self.caching);
            self.states.push(s);
        }
        let c = self.inner.choose(armed).min(armed.len() - 1);
        self.choices.push(c);
        if let (Some(ctl), Some(b)) = (&self.order, armed[c].label.strip_prefix("loader#")) {
            if let Ok(b) = b.parse::<u32>() {
                let want = ctl.lock().unwrap().want.remove(&b);
                if let Some(m) = want {
                    let cap = ctl.lock().unwrap().cap;
                    let n = order_choices(m, cap).len();
                    let fake: Vec<Armed> = (0..n)
                        .map(|j| Armed {
                            id: usize::MAX,
                            label: format!("order#{b}/{j}"),
                        })
                        .collect();
                    let p = self.inner.choose(&fake).min(n - 1);
                    self.choices.push(p);
                    self.orders.push(format!("order#{b}/{p}"));
                    ctl.lock().unwrap().perm.insert(b, p);
                }
            }
        }
        c
    }
}

pub fn exec_vsched(cfg: &Cfg, chooser: &mut dyn Chooser, observe: bool) -> Exec {
    match cfg.cache {
        CacheKind::None => exec_vsched_c(cfg, NoCache, chooser, observe),
        CacheKind::HashMap => exec_vsched_c(cfg, HashMapCache::default(), chooser, observe),
        CacheKind::Lru(c) => exec_vsched_c(cfg, LruCache::new(c), chooser, observe),
    }
}

fn exec_vsched_c<C: CacheFactory>(cfg: &Cfg, factory: C, chooser: &mut dyn Chooser, observe: bool) -> Exec {
    let sched = Sched::new();
    let log = Arc::new(Log::default());
    let spawned = Arc::new(AtomicU32::new(0));
    let s2 = sched.clone();
    let mut loader = HLoader::new(
        log.clone(),
        cfg.fault.clone(),
        Box::new(move |b| s2.gate(format!("loader#{b}")).boxed()),
    );
    let order = match cfg.cache {
        CacheKind::Lru(c) => Some(Arc::new(Mutex::new(OrderCtl {
            cap: c,
            ..Default::default()
        }))),
        _ => None,
    };
    loader.order = order.clone();
    let built = catch(|| {
        DataLoader::with_cache(
            loader,
            VSpawn {
                sched: sched.clone(),
                spawned: spawned.clone(),
            },
            VTimer {
                sched: sched.clone(),
                n: AtomicU32::new(0),
            },
            factory,
        )
        .max_batch_size(cfg.max_batch)
    });
    let dl = match built {
        Ok(d) => Arc::new(d),
        Err(p) => {
            return Exec {
                log: vec![],
                opened: vec![],
                choices: vec![],
                branch_points: 0,
                outcome: "panic".into(),
                panic: Some(format!("constructing the DataLoader panicked: {p}")),
                quiescent: false,
                abstract_states: vec![],
                    };
        }
    };
    let plan = numbered(cfg);
    let done = Arc::new(AtomicUsize::new(0));
    let sa = sched.clone();
    let wait_start: Arc<dyn Fn(u32) -> BoxFuture<'static, ()> + Send + Sync> =
        Arc::new(move |i| sa.gate(format!("start#{i}")).boxed());
    let sb = sched.clone();
    let wait_cancel: Arc<dyn Fn(u32) -> BoxFuture<'static, ()> + Send + Sync> =
        Arc::new(move |i| sb.gate(format!("cancel#{i}")).boxed());
    let root = {
        let sched = sched.clone();
        let dl = dl.clone();
        let log = log.clone();
        async move {
            for reqs in plan {
                sched.spawn(client(
                    dl.clone(),
                    log.clone(),
                    reqs,
                    wait_start.clone(),
                    wait_cancel.clone(),
                    done.clone(),
                ));
            }
        }
    };
    let mut obs = Obs {
        inner: chooser,
        log: log.clone(),
        caching: cfg.cache != CacheKind::None,
        choices: vec![],
        states: vec![],
        observe,
        order,
        orders: vec![],
    };
    let r = catch(|| sched.run(root, &mut obs, true, 400));
    let (outcome, opened, branch_points, panic, quiescent) = match r {
        Ok((_, rep)) => {
            let q = rep.outcome == Outcome::Done;
            (format!("{:?}", rep.outcome), rep.opened, rep.branch_points, None, q)
        }
        Err(p) => ("panic".to_string(), vec![], 0, Some(p), false),
    };
    let final_cached = if panic.is_none() {
        catch(|| vh_core::vsched::block_on(dl.get_cached_values::<KA>()))
            .ok()
            .map(|m| m.into_iter().map(|(k, v)| (k.0, v)).collect::<VMap>())
    } else {
        None
    };
    let mut states = std::mem::take(&mut obs.states);
    if observe && quiescent {
        let mut s = abstract_state(&log.snapshot(), &[], cfg.cache != CacheKind::None);
        if let Some(fc) = &final_cached {
            s.push_str(&format!(" final_cache_keys={:?}", fc.keys().collect::<Vec<_>>()));
        }
        states.push(s);
    }
    let mut opened = opened;
    opened.extend(obs.orders.iter().cloned());
    Exec {
        log: log.snapshot(),
        opened,
        choices: obs.choices,
        branch_points,
        outcome,
        panic,
        quiescent,
        abstract_states: states,
    }
}

// ---------------------------------------------------------------- per-shard accumulation

#[derive(Default)]
struct Acc {
    evals: u64,
    counters: BTreeMap<&'static str, u64>,
    distinct: HashSet<u64>,
    states: BTreeSet<String>,
    samples: Vec<J>,
}

impl Acc {
    fn c(&mut self, k: &'static str, n: u64) {
        if n > 0 {
            *self.counters.entry(k).or_insert(0) += n;
        }
    }
    fn flush(&mut self, run: &Run) {
        run.evals(self.evals);
        self.evals = 0;
        for (k, v) in std::mem::take(&mut self.counters) {
            run.count(k, v);
        }
        for h in self.distinct.drain() {
            run.nontrivial(h);
        }
        for s in std::mem::take(&mut self.states) {
            run.seen("abstract_states_at_quiescent_points", &s);
        }
        for s in self.samples.drain(..) {
            // keep room for every mode: DFS samples fill at most 3 slots, walks up to 5, threads up to 7
            let cap = match s["mode"].as_str() {
                Some("dfs") => 3,
                Some("random-walk") => 5,
                _ => 7,
            };
            run.sample_upto(cap, s);
        }
    }
}

/// Batching outcome of a history, independent of the interleaving that produced
/// it: the batches formed (sorted keys, dispatch path, ok/failed) in start order
/// and, per load, where each returned value came from (or error / dropped).
fn outcome_shape(log: &[Ev]) -> u64 {
    let mut parts: Vec<u64> = Vec::with_capacity(log.len() * 3);
    let mut ends: Vec<(u64, u64)> = vec![];
    let mut rets: Vec<Vec<u64>> = vec![];
    for e in log {
        match e {
            Ev::BatchStart { b, keys, via_timer, .. } => {
                let mut k = keys.clone();
                k.sort();
                parts.push(0xB000 + *b as u64);
                parts.push(*via_timer as u64);
                parts.extend(k.iter().map(|x| *x as u64 + 1));
            }
            Ev::BatchEnd { b, res } => ends.push((*b as u64, res.is_ok() as u64)),
            Ev::Ret { i, res } => {
                let mut r = vec![0xC000 + *i as u64];
                match res {
                    Ok(m) => {
                        for (k, v) in m {
                            r.push(*k as u64);
                            r.push(match v.src {
                                Src::Batch(b) => 0x100 + b as u64,
                                Src::Feed(n) => 0x10000 + n as u64,
                            });
                        }
                    }
                    Err(e) => r.push(0xE000 + *e as u64),
                }
                rets.push(r);
            }
            Ev::Dropped { i } => rets.push(vec![0xC000 + *i as u64, 0xD000]),
            _ => {}
        }
    }
    ends.sort();
    rets.sort();
    for (b, ok) in ends {
        parts.push(0xA000 + b * 2 + ok);
    }
    for r in rets {
        parts.extend(r);
    }
    rng::mix(&parts)
}

fn case_json(mode: &str, cfg: &Cfg, ex: &Exec) -> J {
    json!({
        "mode": mode,
        "cfg": cfg,
        "choices": ex.choices,
        "opened": ex.opened,
        "outcome": ex.outcome,
        "log": ex.log,
    })
}

/// Judge one execution; report violations; update the accumulators.
fn judge(run: &Run, acc: &mut Acc, mode: &str, cfg: &Cfg, cfg_hash: u64, ex: &Exec, exact: bool) -> bool {
    acc.evals += 1;
    let mut bad = false;
    if let Some(p) = &ex.panic {
        bad = true;
        acc.c("panics", 1);
        run.violation(
            &format!("C28-D6:{:x}", rng::mix(&[cfg_hash, rng::hash_str(&format!("{:?}", ex.choices))])),
            &format!(
                "D6: panic while running {} under schedule {:?}: {p}",
                describe(cfg),
                ex.opened
            ),
            case_json(mode, cfg, ex),
        );
    }
    if ex.outcome == "StepLimit" {
        run.inconclusive("a vsched run hit the step limit (harness bound too small)");
        return false;
    }
    let out = check_history(&cfg.mon(), &ex.log, ex.quiescent, exact);
    if out.viol.iter().any(|v| v.0 == "HARNESS") {
        run.inconclusive(&format!("harness log inconsistent: {:?}", out.viol));
        return false;
    }
    for e in &ex.log {
        match e {
            Ev::BatchStart { via_timer, keys, .. } => {
                acc.c(if *via_timer { "timer_dispatches" } else { "immediate_dispatches" }, 1);
                if keys.len() > cfg.max_batch {
                    acc.c("batches_over_max_batch_size", 1);
                }
            }
            Ev::BatchEnd { res: Err(_), .. } => acc.c("loader_errors", 1),
            Ev::BatchEnd { res: Ok(_), .. } => acc.c("loader_batches_ok", 1),
            Ev::Dropped { .. } => acc.c("dropped_waiters", 1),
            Ev::Ret { res: Err(_), .. } => acc.c("errors_delivered_to_loads", 1),
            Ev::Ret { res: Ok(_), .. } => acc.c("loads_returned_ok", 1),
            _ => {}
        }
    }
    acc.c("cache_hits", out.cache_hits);
    if mode == "threads" {
        // the same kinds of events must also have been seen on real threads
        acc.c("thread_mode_cache_hits", out.cache_hits);
        acc.c("thread_mode_loads_checked", out.loads_checked);
        for e in &ex.log {
            match e {
                Ev::Dropped { .. } => acc.c("thread_mode_dropped_waiters", 1),
                Ev::BatchEnd { res: Err(_), .. } => acc.c("thread_mode_loader_errors", 1),
                Ev::BatchStart { via_timer: false, .. } => acc.c("thread_mode_immediate_dispatches", 1),
                Ev::BatchStart { via_timer: true, .. } => acc.c("thread_mode_timer_dispatches", 1),
                _ => {}
            }
        }
    }
    acc.c("loads_partly_cache_served", out.partial_hits);
    acc.c("loads_fully_cache_served", out.full_hits);
    acc.c("lru_evictions_in_model", out.evictions);
    if out.blowup {
        acc.c("exact_cache_model_abandoned", 1);
    }
    if out.max_states > 1 {
        acc.c("histories_with_ambiguous_lru_order", 1);
    }
    if !out.viol.is_empty() {
        bad = true;
        let rules = out.rules().join("+");
        let what: Vec<String> = out.viol.iter().map(|(r, m)| format!("{r}: {m}")).collect();
        run.violation(
            &format!(
                "C28-{rules}:{:x}",
                rng::mix(&[cfg_hash, rng::hash_str(&format!("{:?}{:?}", ex.choices, ex.opened))])
            ),
            &format!(
                "{} | config {} | schedule {:?} | log {}",
                what.join(" || "),
                describe(cfg),
                ex.opened,
                serde_json::to_string(&ex.log).unwrap()
            ),
            case_json(mode, cfg, ex),
        );
    }
    if ex.branch_points > 0 || mode == "threads" {
        if acc.distinct.len() < 150_000 {
            acc.distinct.insert(rng::mix(&[cfg_hash, outcome_shape(&ex.log)]));
        } else {
            acc.c("distinct_cases_not_recorded_beyond_per_shard_cap", 1);
        }
    }
    for s in &ex.abstract_states {
        if !acc.states.contains(s) {
            acc.states.insert(s.clone());
        }
    }
    !bad
}

fn describe(cfg: &Cfg) -> String {
    let reqs: Vec<String> = numbered(cfg)
        .iter()
        .map(|c| {
            c.iter()
                .map(|(i, r)| {
                    format!(
                        "#{i}:{}{:?}{}",
                        if r.one { "load_one" } else { "load_many" },
                        r.keys,
                        if r.cancel { " (cancellable)" } else { "" }
                    )
                })
                .collect::<Vec<_>>()
                .join(" then ")
        })
        .collect();
    format!(
        "{} max_batch_size={} clients=[{}] fault={:?}",
        cfg.cache.name(),
        cfg.max_batch,
        reqs.join(" | "),
        cfg.fault
    )
}

// ---------------------------------------------------------------- DFS configurations

fn subsets3() -> Vec<Vec<u8>> {
    (1u8..8).map(|m| (0..3u8).filter(|k| m & (1 << k) != 0).collect()).collect()
}

/// Request plans for the exhaustive part: every multiset of 1..=3 non-empty key
/// sets over 3 keys (requests are symmetric: every arrival order is a schedule),
/// plus plans with a repeated key inside a request and plans where one client
/// issues two loads in sequence (a used loader).
fn dfs_plans(thorough: bool) -> Vec<(Vec<Vec<Req>>, Option<(Vec<u8>, bool)>)> {
    let subs = subsets3();
    let mask = |keys: &Vec<u8>| keys.iter().fold(0u8, |m, k| m | (1 << k));
    let mk = |keys: &Vec<u8>, alt: bool| Req {
        keys: keys.clone(),
        one: keys.len() == 1 && alt,
        cancel: false,
        gate: true,
    };
    // (plan, symmetry descriptor: key-set masks of the requests, and whether the requests are
    // interchangeable (independent clients) or ordered (sequential client))
    let mut plans: Vec<(Vec<Vec<Req>>, Option<(Vec<u8>, bool)>)> = vec![];
    for a in 0..subs.len() {
        plans.push((vec![vec![mk(&subs[a], true)]], Some((vec![mask(&subs[a])], true))));
        for b in a..subs.len() {
            plans.push((
                vec![vec![mk(&subs[a], true)], vec![mk(&subs[b], false)]],
                Some((vec![mask(&subs[a]), mask(&subs[b])], true)),
            ));
            for c in b..subs.len() {
                plans.push((
                    vec![vec![mk(&subs[a], true)], vec![mk(&subs[b], false)], vec![mk(&subs[c], true)]],
                    Some((vec![mask(&subs[a]), mask(&subs[b]), mask(&subs[c])], true)),
                ));
            }
        }
    }
    // duplicates inside one request
    plans.push((
        vec![
            vec![Req { keys: vec![0, 0, 1], one: false, cancel: false, gate: true }],
            vec![Req { keys: vec![1, 1], one: false, cancel: false, gate: true }],
            vec![Req { keys: vec![2], one: true, cancel: false, gate: true }],
        ],
        None,
    ));
    // empty request
    plans.push((
        vec![
            vec![Req { keys: vec![], one: false, cancel: false, gate: true }],
            vec![Req { keys: vec![0, 1], one: false, cancel: false, gate: true }],
            vec![Req { keys: vec![1], one: true, cancel: false, gate: true }],
        ],
        None,
    ));
    // a request listing its keys in descending order (LRU hit order)
    plans.push((
        vec![
            vec![Req { keys: vec![2, 1, 0], one: false, cancel: false, gate: true }],
            vec![Req { keys: vec![1, 0], one: false, cancel: false, gate: true }],
            vec![Req { keys: vec![2, 0], one: false, cancel: false, gate: true }],
        ],
        None,
    ));
    // sequential clients (second load right after the first reply)
    let seqs: Vec<(Vec<u8>, Vec<u8>, Vec<u8>)> = if thorough {
        let mut v = vec![];
        for a in &subs {
            for b in &subs {
                for c in &subs {
                    v.push((a.clone(), b.clone(), c.clone()));
                }
            }
        }
        v
    } else {
        vec![
            (vec![0], vec![0], vec![0]),
            (vec![0], vec![0, 1], vec![1]),
            (vec![0, 1], vec![1, 2], vec![2]),
            (vec![0, 1, 2], vec![0], vec![1, 2]),
            (vec![1], vec![0, 1, 2], vec![0, 1]),
        ]
    };
    for (a, b, c) in seqs {
        plans.push((
            vec![
                vec![
                    Req { keys: a.clone(), one: a.len() == 1, cancel: false, gate: true },
                    Req { keys: b.clone(), one: false, cancel: false, gate: false },
                ],
                vec![Req { keys: c.clone(), one: false, cancel: false, gate: true }],
            ],
            if thorough { Some((vec![mask(&a), mask(&b), mask(&c)], false)) } else { None },
        ));
    }
    plans
}

/// Is this plan the least member of its class under the given key renamings?
fn is_canonical(masks: &[u8], interchangeable: bool, perms: &[[u8; 3]]) -> bool {
    let norm = |m: Vec<u8>| {
        let mut m = m;
        if interchangeable {
            m.sort();
        }
        m
    };
    let me = norm(masks.to_vec());
    for p in perms {
        let img: Vec<u8> = masks
            .iter()
            .map(|m| (0..3u8).filter(|k| m & (1 << k) != 0).fold(0u8, |acc, k| acc | (1 << p[k as usize])))
            .collect();
        if norm(img) < me {
            return false;
        }
    }
    true
}

fn dfs_configs(run: &Run) -> Vec<Cfg> {
    let thorough = run.is_thorough();
    let plans = dfs_plans(thorough);
    let caches: Vec<CacheKind> = if thorough {
        vec![CacheKind::None, CacheKind::HashMap, CacheKind::Lru(1), CacheKind::Lru(2)]
    } else {
        vec![CacheKind::None, CacheKind::HashMap, CacheKind::Lru(2)]
    };
    let faults: Vec<Fault> = vec![
        Fault::default(),
        Fault { fail: vec![0], omit: vec![] },
        Fault { fail: vec![1], omit: vec![] },
        Fault { fail: vec![], omit: vec![(u32::MAX, 0)] },
        Fault { fail: vec![0, 1, 2, 3, 4, 5, 6, 7], omit: vec![] },
    ];
    let all_perms: Vec<[u8; 3]> = vec![[0, 1, 2], [0, 2, 1], [1, 0, 2], [1, 2, 0], [2, 0, 1], [2, 1, 0]];
    let fix0: Vec<[u8; 3]> = vec![[0, 1, 2], [0, 2, 1]];
    let mut out: Vec<(usize, Cfg)> = vec![];
    let mut idx = 0u64;
    for (plan, sym) in &plans {
        let nreq: usize = plan.iter().map(|c| c.len()).sum();
        for &cache in &caches {
            for max_batch in 1..=3usize {
                for (fi, fault) in faults.iter().enumerate() {
                    // keys are opaque to the DataLoader: one representative per key-renaming class
                    // (renamings must fix key 0 when the fault plan names it)
                    if let Some((masks, inter)) = sym {
                        let perms = if fault.omit.is_empty() { &all_perms } else { &fix0 };
                        if !is_canonical(masks, *inter, perms) {
                            continue;
                        }
                    }
                    // cancel variants: none, each single request, and (thorough) the first two
                    let mut cancels: Vec<Vec<usize>> = vec![vec![]];
                    for j in 0..nreq {
                        cancels.push(vec![j]);
                    }
                    if thorough && nreq >= 2 {
                        cancels.push(vec![0, 1]);
                    }
                    for (ci, cancel) in cancels.iter().enumerate() {
                        idx += 1;
                        if !thorough {
                            // quick: the fault-free, cancel-free configuration of every plan, and a
                            // seed-rotated sixteenth of the fault x cancel combinations
                            let base = fi == 0 && ci == 0;
                            if !base && (idx + run.seed) % 16 != 0 {
                                continue;
                            }
                        }
                        let mut clients = plan.clone();
                        let mut j = 0;
                        for c in clients.iter_mut() {
                            for r in c.iter_mut() {
                                if cancel.contains(&j) {
                                    r.cancel = true;
                                }
                                j += 1;
                            }
                        }
                        // order: fault-free and cancel-free first, cancelled waiters last
                        let rank = if ci == 0 { fi } else { 10 + fi };
                        out.push((
                            rank,
                            Cfg {
                                cache,
                                max_batch,
                                clients,
                                fault: fault.clone(),
                            },
                        ));
                    }
                }
            }
        }
    }
    out.sort_by_key(|x| x.0);
    out.into_iter().map(|x| x.1).collect()
}

struct DfsTotals {
    skipped: AtomicUsize,
    configs: AtomicUsize,
    incomplete: AtomicUsize,
    schedules: AtomicUsize,
    max_schedules_one_config: AtomicUsize,
}

fn dfs_one(run: &Run, acc: &mut Acc, cfg: &Cfg, cap: usize, totals: &DfsTotals, sample: bool) {
    let mut dfs = Dfs::new();
    let cfg_hash = cfg.hash();
    let mut n = 0usize;
    let mut complete = true;
    let mut reported = 0;
    loop {
        let ex = exec_vsched(cfg, &mut dfs, n % 4 == 0);
        n += 1;
        let ok = judge(run, acc, "vsched", cfg, cfg_hash, &ex, true);
        if !ok {
            reported += 1;
        }
        if sample && n == 3 {
            acc.samples.push(json!({
                "mode": "dfs",
                "config": describe(cfg),
                "schedule_opened_gates": ex.opened,
                "choices": ex.choices,
                "log": ex.log,
            }));
        }
        if reported >= 3 {
            // enough witnesses from this configuration
            complete = false;
            break;
        }
        if n >= cap {
            complete = false;
            break;
        }
        if !dfs.advance() {
            break;
        }
    }
    totals.configs.fetch_add(1, Ordering::SeqCst);
    totals.schedules.fetch_add(n, Ordering::SeqCst);
    totals.max_schedules_one_config.fetch_max(n, Ordering::SeqCst);
    if !complete {
        totals.incomplete.fetch_add(1, Ordering::SeqCst);
    }
    acc.c("dfs_distinct_schedules", n as u64);
}

// ---------------------------------------------------------------- random walks

fn gen_cfg(r: &mut Rng, big: bool) -> Cfg {
    let nkeys = if big { 2 + r.below(7) } else { 2 + r.below(3) } as u8; // up to 8 keys
    let nreq = if big { 3 + r.below(10) } else { 2 + r.below(4) }; // up to 12 requests
    let cache = match r.below(7) {
        0 | 1 => CacheKind::None,
        2 | 3 => CacheKind::HashMap,
        _ => CacheKind::Lru(1 + r.below(4)),
    };
    let max_batch = 1 + r.below(5);
    let mut clients: Vec<Vec<Req>> = vec![];
    let mut left = nreq;
    while left > 0 {
        let n = (1 + r.below(3)).min(left);
        left -= n;
        let mut c = vec![];
        for j in 0..n {
            let nk = match r.below(10) {
                0 => 0,
                1..=4 => 1,
                5..=7 => 2,
                _ => 3,
            };
            let mut keys: Vec<u8> = (0..nk).map(|_| r.below(nkeys as usize) as u8).collect();
            if nk == 0 && r.bool() {
                keys.push(r.below(nkeys as usize) as u8);
            }
            let one = keys.len() == 1 && r.bool();
            c.push(Req {
                keys,
                one,
                cancel: r.chance(1, 5),
                gate: j == 0 || r.chance(2, 3),
            });
        }
        clients.push(c);
    }
    let mut fault = Fault::default();
    match r.below(4) {
        0 => {
            for b in 0..16 {
                if r.chance(1, 4) {
                    fault.fail.push(b);
                }
            }
        }
        1 => {
            for b in 0..16u32 {
                if r.chance(1, 4) {
                    fault.omit.push((b, r.below(nkeys as usize) as u8));
                }
            }
            if r.chance(1, 3) {
                fault.omit.push((u32::MAX, r.below(nkeys as usize) as u8));
            }
        }
        _ => {}
    }
    Cfg {
        cache,
        max_batch,
        clients,
        fault,
    }
}

fn random_walks(run: &Run, acc: &mut Acc, shard: u64, n: u64) {
    let mut r = Rng::new(rng::mix(&[run.seed, 28, 1000 + shard]));
    let deadline = Instant::now() + Duration::from_secs(run.scale(12, 80));
    for it in 0..n {
        if it % 256 == 0 && Instant::now() > deadline {
            acc.c("random_walk_shards_stopped_at_wall_clock_guard", 1);
            break;
        }
        let cfg = gen_cfg(&mut r, it % 4 != 0);
        let mut ch = RandomChooser(r.fork(it));
        let ex = exec_vsched(&cfg, &mut ch, it % 8 == 0);
        acc.c("random_walks", 1);
        judge(run, acc, "vsched", &cfg, cfg.hash(), &ex, true);
        if shard == 0 && it == 1 {
            acc.samples.push(json!({
                "mode": "random-walk",
                "config": describe(&cfg),
                "schedule_opened_gates": ex.opened,
                "log": ex.log,
            }));
        }
    }
}

// ---------------------------------------------------------------- real threads

struct PSpawn {
    pool: Arc<PoolInner>,
}
impl Spawn for PSpawn {
    fn spawn_obj(&self, future: FutureObj<'static, ()>) -> Result<(), SpawnError> {
        self.pool.spawn(Tagged::new(future));
        Ok(())
    }
}

struct PTimer {
    pool: Arc<PoolInner>,
    rng: Mutex<Rng>,
}
impl Timer for PTimer {
    fn delay(&self, _d: Duration) -> BoxFuture<'static, ()> {
        mark_timer_used();
        let us = {
            let mut r = self.rng.lock().unwrap();
            match r.below(4) {
                0 => 0,
                1 => r.below(20) as u64,
                _ => r.below(300) as u64,
            }
        };
        self.pool.sleep(Duration::from_micros(us)).boxed()
    }
}

/// Small random disturbance: yields (task re-queued, maybe another worker),
/// a short blocking sleep of the worker, or a timer-thread sleep.
fn disturbance(pool: &Arc<PoolInner>, r: &Mutex<Rng>) -> BoxFuture<'static, ()> {
    let (kind, n) = {
        let mut g = r.lock().unwrap();
        (g.below(5), g.below(120) as u64)
    };
    let pool = pool.clone();
    match kind {
        0 => async {}.boxed(),
        1 | 2 => YieldN((n % 6) as u32).boxed(),
        3 => async move {
            std::thread::sleep(Duration::from_micros(n % 60));
            YieldN(1).await;
        }
        .boxed(),
        _ => pool.sleep(Duration::from_micros(n)).boxed(),
    }
}

fn exec_threads(cfg: &Cfg, pool: &Pool, seed: u64) -> Exec {
    match cfg.cache {
        CacheKind::None => exec_threads_c(cfg, NoCache, pool, seed),
        CacheKind::HashMap => exec_threads_c(cfg, HashMapCache::default(), pool, seed),
        CacheKind::Lru(c) => exec_threads_c(cfg, LruCache::new(c), pool, seed),
    }
}

fn exec_threads_c<C: CacheFactory>(cfg: &Cfg, factory: C, pool: &Pool, seed: u64) -> Exec {
    let ph = pool.handle();
    ph.panics.lock().unwrap().clear();
    let log = Arc::new(Log::default());
    let rr = Arc::new(Mutex::new(Rng::new(seed)));
    let (p1, r1) = (ph.clone(), rr.clone());
    let loader = HLoader::new(log.clone(), cfg.fault.clone(), Box::new(move |_b| disturbance(&p1, &r1)));
    let dl = Arc::new(
        DataLoader::with_cache(
            loader,
            PSpawn { pool: ph.clone() },
            PTimer {
                pool: ph.clone(),
                rng: Mutex::new(Rng::new(seed ^ 0x5555)),
            },
            factory,
        )
        .max_batch_size(cfg.max_batch),
    );
    let plan = numbered(cfg);
    let nclients = plan.len();
    let done = Arc::new(AtomicUsize::new(0));
    let (p2, r2) = (ph.clone(), rr.clone());
    let wait_start: Arc<dyn Fn(u32) -> BoxFuture<'static, ()> + Send + Sync> = Arc::new(move |_i| disturbance(&p2, &r2));
    let (p3, r3) = (ph.clone(), rr.clone());
    let wait_cancel: Arc<dyn Fn(u32) -> BoxFuture<'static, ()> + Send + Sync> = Arc::new(move |_i| {
        let us = r3.lock().unwrap().below(400) as u64;
        p3.sleep(Duration::from_micros(us)).boxed()
    });
    for reqs in plan {
        ph.spawn(client(
            dl.clone(),
            log.clone(),
            reqs,
            wait_start.clone(),
            wait_cancel.clone(),
            done.clone(),
        ));
    }
    // wait for quiescence
    let t0 = Instant::now();
    let mut outcome = "Done".to_string();
    let mut quiescent = true;
    loop {
        if ph.quiescent() {
            // confirm: still quiescent after a pause, with the same log length
            let n = log.len();
            std::thread::sleep(Duration::from_micros(300));
            if ph.quiescent() && log.len() == n {
                // clients that have not finished here are stuck: the monitor reports D5
                let _ = (done.load(Ordering::SeqCst), nclients);
                break;
            }
        }
        if t0.elapsed() > Duration::from_secs(10) {
            outcome = "Watchdog".into();
            quiescent = false;
            break;
        }
        std::thread::sleep(Duration::from_micros(50));
    }
    let panics = ph.panics.lock().unwrap().clone();
    Exec {
        log: log.snapshot(),
        opened: vec![],
        choices: vec![],
        branch_points: 0,
        outcome,
        panic: panics.first().cloned(),
        quiescent,
        abstract_states: vec![],
    }
}

fn thread_mode(run: &Run, acc: &mut Acc, shard: u64, n: u64, deadline: Instant) {
    let pool = Pool::new(4);
    let mut r = Rng::new(rng::mix(&[run.seed, 28, 5000 + shard]));
    for it in 0..n {
        if Instant::now() > deadline {
            acc.c("thread_mode_stopped_at_deadline", 1);
            break;
        }
        let cfg = gen_cfg(&mut r, it % 3 != 0);
        let ex = exec_threads(&cfg, &pool, r.next_u64());
        if ex.outcome == "Watchdog" {
            run.inconclusive("real-thread run did not become quiescent within 10 s (watchdog)");
            break;
        }
        acc.c("thread_mode_histories", 1);
        judge(run, acc, "threads", &cfg, cfg.hash(), &ex, false);
        if shard == 0 && it == 0 {
            acc.samples.push(json!({"mode": "threads", "config": describe(&cfg), "log": ex.log}));
        }
    }
}

// ---------------------------------------------------------------- Miri supplement

fn miri_supplement(run: &Run) {
    let harness = run.root.join("harness");
    let target = harness.join("target").join("miri");
    let t0 = Instant::now();
    let mut cmd = std::process::Command::new("cargo");
    cmd.args(["+nightly", "miri", "run", "--offline", "-q", "-p", "vh-conc", "--bin", "miri_dl"])
        .current_dir(&harness)
        .env("MIRIFLAGS", "-Zmiri-many-seeds=0..8 -Zmiri-disable-isolation")
        .env("CARGO_TARGET_DIR", &target)
        .env("CARGO_NET_OFFLINE", "true")
        .env_remove("RUSTFLAGS")
        .stdout(std::process::Stdio::piped())
        .stderr(std::process::Stdio::piped());
    let child = match cmd.spawn() {
        Ok(c) => c,
        Err(e) => {
            run.note(&format!("Miri supplement skipped: cannot start cargo miri: {e}"));
            return;
        }
    };
    let pid = child.id();
    let finished = Arc::new(AtomicBool::new(false));
    let f2 = finished.clone();
    // watchdog: 10 minutes
    let wd = std::thread::spawn(move || {
        let t = Instant::now();
        while t.elapsed() < Duration::from_secs(540) {
            if f2.load(Ordering::SeqCst) {
                return false;
            }
            std::thread::sleep(Duration::from_millis(200));
        }
        let _ = std::process::Command::new("kill").arg("-9").arg(pid.to_string()).status();
        true
    });
    let out = child.wait_with_output();
    finished.store(true, Ordering::SeqCst);
    let killed = wd.join().unwrap_or(false);
    let secs = t0.elapsed().as_secs_f64();
    match out {
        Err(e) => run.note(&format!("Miri supplement inconclusive: {e}")),
        Ok(o) => {
            let text = format!("{}\n{}", String::from_utf8_lossy(&o.stdout), String::from_utf8_lossy(&o.stderr));
            let ub = text.contains("Undefined Behavior") || text.contains("Data race detected");
            run.extra(
                "miri",
                json!({"wall_s": secs, "exit": o.status.code(), "killed_by_watchdog": killed, "tail": vh_core::run::truncate(&text[text.len().saturating_sub(1500)..], 1500)}),
            );
            if ub {
                run.count("miri_reports", 1);
                run.violation(
                    &format!("C28-miri:{:x}", rng::hash_str(&text[..text.len().min(4000)])),
                    &format!("Miri reported undefined behaviour / a data race in the DataLoader workload: {}", vh_core::run::truncate(&text, 3000)),
                    json!({"mode": "miri", "output": text}),
                );
            } else if o.status.success() && text.contains("miri_dl ok") {
                run.count("miri_seeds_clean", 8);
                run.note(&format!("Miri supplement: 8 seeds clean in {secs:.0} s"));
            } else {
                run.note(&format!(
                    "Miri supplement inconclusive (tool failure, exit {:?}, {secs:.0} s{}): {}",
                    o.status.code(),
                    if killed { ", killed by the 9 min watchdog" } else { "" },
                    vh_core::run::truncate(&text[text.len().saturating_sub(600)..], 600)
                ));
            }
        }
    }
}

// ---------------------------------------------------------------- replay

fn replay(run: &Run, path: &std::path::Path) {
    let text = match std::fs::read_to_string(path) {
        Ok(t) => t,
        Err(e) => {
            run.inconclusive(&format!("cannot read replay file: {e}"));
            return;
        }
    };
    let v: J = match serde_json::from_str(&text) {
        Ok(v) => v,
        Err(e) => {
            run.inconclusive(&format!("replay file does not parse: {e}"));
            return;
        }
    };
    let case = if v.get("case").is_some() { v["case"].clone() } else { v };
    let mode = case["mode"].as_str().unwrap_or("vsched").to_string();
    if mode == "miri" {
        println!("replay: Miri reports are re-run with `./check C28 thorough`; recorded output:\n{}", case["output"].as_str().unwrap_or(""));
        return;
    }
    let cfg: Cfg = match serde_json::from_value(case["cfg"].clone()) {
        Ok(c) => c,
        Err(e) => {
            run.inconclusive(&format!("replay file has no usable cfg: {e}"));
            return;
        }
    };
    let mut acc = Acc::default();
    println!("replay: {}", describe(&cfg));
    if mode == "threads" {
        // a real-thread history cannot be re-executed deterministically: re-judge the recorded log
        let log: Vec<Ev> = serde_json::from_value(case["log"].clone()).unwrap_or_default();
        let ex = Exec {
            log,
            opened: vec![],
            choices: vec![],
            branch_points: 0,
            outcome: case["outcome"].as_str().unwrap_or("Done").to_string(),
            panic: None,
            quiescent: case["outcome"].as_str() == Some("Done"),
            abstract_states: vec![],
            };
        println!("replay: real-thread history, re-judging the recorded log ({} events)", ex.log.len());
        let ok = judge(run, &mut acc, "threads", &cfg, cfg.hash(), &ex, false);
        println!("replay: {}", if ok { "no violation in the recorded history" } else { "violation reproduced" });
        return;
    }
    let choices: Vec<usize> = serde_json::from_value(case["choices"].clone()).unwrap_or_default();
    let mut ch = ReplayChooser { choices, at: 0 };
    let ex = exec_vsched(&cfg, &mut ch, true);
    println!("replay: schedule {:?}", ex.opened);
    for (i, e) in ex.log.iter().enumerate() {
        println!("  {i:3} {e:?}");
    }
    let ok = judge(run, &mut acc, "vsched", &cfg, cfg.hash(), &ex, true);
    println!("replay: {}", if ok { "no violation reproduced" } else { "violation reproduced" });
}

// ---------------------------------------------------------------- main

pub fn main() {
    let mut run = Run::from_args(
        "exploration",
        "vsched owns Spawn, Timer (gate timer#n) and loader completion (gate loader#b); clients wait on start#i and \
         cancelled clients race cancel#i. Exhaustive DFS over every choice point (for LRU also over every distinguishable \
         iteration order of a batch's result map) for every multiset of <=3 requests over 3 keys, one representative per \
         key-renaming class (plus repeated-key, descending-key, empty and sequential-client plans) x max_batch_size 1-3 x NoCache/HashMap/LRU x \
         fault plans (none, batch 0 fails, batch 1 fails, every batch fails, key 0 omitted) x cancelled waiters (none, each \
         single request[, first two]); quick enumerates the fault-free/cancel-free configuration of every plan plus a \
         seed-rotated sixteenth of the fault x cancel combinations, thorough all of them. Random walks over up to 12 \
         requests / 8 keys / max_batch 1-5 / LRU 1-4. Thorough also runs the random configurations on real threads. \
         Every DFS schedule is distinct by construction (counted in dfs_distinct_schedules); a case counts as distinct \
         non-trivial by (configuration, batching outcome: batches formed, dispatch path, value provenance of every reply) \
         when its run had at least one real choice point (at most 150000 recorded per shard, so the count is a lower bound); abstract states are recorded at the quiescent points of every fourth DFS schedule and every eighth walk",
    );
    run.assume("the harness loader returns (k, batch id) for key k, so a value identifies the batch it came from; error e_b identifies batch b");
    run.assume("vsched polls real futures with real wakers; a choice point exists only where the library itself suspends on the spawner, timer or loader");
    run.assume("cache model: hits refresh LRU recency in the order the keys were passed; the insertion order of one batch's values is not fixed by the property, so every order is accepted (set of possible LRU states)");
    run.assume("keys are opaque (Hash + Eq) to the DataLoader, so plans that differ only by a renaming of the 3 keys are explored once (renamings fix key 0 when the fault plan omits key 0); requests list their keys in ascending order except in the extra plans");
    run.assume("D2 uses the request length including repeated keys (lenient reading of 'size of the largest single request')");
    run.assume("D4 is not demanded for cancelled loads; a cancelled load needs no reply (D5)");
    run.assume("scc bucket locks are never contended on the single vsched thread, so entry_async/get_async add no suspension points");
    run.set_floors(2000, 200);
    for c in [
        "immediate_dispatches",
        "timer_dispatches",
        "cache_hits",
        "loader_errors",
        "errors_delivered_to_loads",
        "dropped_waiters",
        "batches_over_max_batch_size",
        "lru_evictions_in_model",
        "dfs_distinct_schedules",
        "random_walks",
    ] {
        run.require_counter(c);
    }
    run.set_max_samples(6);
    if run.is_thorough() {
        // the real-thread mode must have produced histories
        for c in [
            "thread_mode_histories",
            "thread_mode_cache_hits",
            "thread_mode_dropped_waiters",
            "thread_mode_loader_errors",
            "thread_mode_immediate_dispatches",
            "thread_mode_timer_dispatches",
        ] {
            run.require_counter(c);
        }
    }

    // the monitor must flag the hand-made bad histories before it judges anything
    let (lines, ok) = selftest();
    run.extra("monitor_selftest", json!({"ok": ok, "cases": lines}));
    if !ok {
        for l in &lines {
            println!("{l}");
        }
        run.inconclusive("monitor self-test failed");
        run.finish();
    }
    run.count("monitor_selftest_cases", lines.len() as u64);

    if let Some(p) = run.replay.clone() {
        replay(&run, &p);
        run.finish();
    }

    let thorough = run.is_thorough();
    let miri_handle_needed = thorough;
    let configs = dfs_configs(&run);
    let cap = run.scale(400_000, 3_000_000) as usize;
    let dfs_budget = Duration::from_secs(run.scale(40, 270));
    let totals = DfsTotals {
        skipped: AtomicUsize::new(0),
        configs: AtomicUsize::new(0),
        incomplete: AtomicUsize::new(0),
        schedules: AtomicUsize::new(0),
        max_schedules_one_config: AtomicUsize::new(0),
    };
    let next = AtomicUsize::new(0);
    let shards = 16u64;
    let walks = run.scale(15_000, 300_000);
    let thread_runs = run.scale(0, 15_000);
    let t_dfs = Instant::now();
    let dfs_secs = Mutex::new(0f64);
    let walk_secs = Mutex::new(0f64);
    std::thread::scope(|s| {
        if miri_handle_needed {
            let run = &run;
            s.spawn(move || miri_supplement(run));
        }
        let mut hs = vec![];
        for shard in 0..shards {
            let (run, configs, totals, next, dfs_secs, walk_secs) = (&run, &configs, &totals, &next, &dfs_secs, &walk_secs);
            hs.push(s.spawn(move || {
                let mut acc = Acc::default();
                loop {
                    let i = next.fetch_add(1, Ordering::SeqCst);
                    if i >= configs.len() {
                        break;
                    }
                    if t_dfs.elapsed() > dfs_budget {
                        // wall-clock guard: the remaining configurations are not explored
                        totals.skipped.fetch_add(1, Ordering::SeqCst);
                        continue;
                    }
                    dfs_one(run, &mut acc, &configs[i], cap, totals, i % 97 == 40);
                }
                acc.flush(run);
                {
                    let mut g = dfs_secs.lock().unwrap();
                    *g = g.max(t_dfs.elapsed().as_secs_f64());
                }
                let t1 = Instant::now();
                random_walks(run, &mut acc, shard, walks);
                acc.flush(run);
                {
                    let mut g = walk_secs.lock().unwrap();
                    *g = g.max(t1.elapsed().as_secs_f64());
                }
            }));
        }
        for h in hs {
            let _ = h.join();
        }
        // real threads after the single-threaded parts, so the pools get the cores
        if thread_runs > 0 {
            let deadline = Instant::now() + Duration::from_secs(100);
            let mut hs = vec![];
            for shard in 0..8u64 {
                let run = &run;
                hs.push(s.spawn(move || {
                    let mut acc = Acc::default();
                    thread_mode(run, &mut acc, shard, thread_runs, deadline);
                    acc.flush(run);
                }));
            }
            for h in hs {
                let _ = h.join();
            }
        }
    });
    let skipped = totals.skipped.load(Ordering::SeqCst);
    let incomplete = totals.incomplete.load(Ordering::SeqCst) + skipped;
    if skipped > 0 {
        run.note(&format!(
            "{skipped} of {} DFS configurations were not started within the {} s wall-clock budget of the DFS part",
            configs.len(),
            dfs_budget.as_secs()
        ));
    }
    run.extra(
        "dfs",
        json!({
            "configurations": totals.configs.load(Ordering::SeqCst),
            "configurations_generated": configs.len(),
            "configurations_not_completed": incomplete,
            "configurations_skipped_by_wall_clock_budget": skipped,
            "distinct_schedules": totals.schedules.load(Ordering::SeqCst),
            "max_schedules_in_one_configuration": totals.max_schedules_one_config.load(Ordering::SeqCst),
            "per_configuration_cap": cap,
            "wall_s": *dfs_secs.lock().unwrap(),
        }),
    );
    run.extra("random_walks_wall_s", json!(*walk_secs.lock().unwrap()));
    run.exhaustive(incomplete == 0 && run.violations() == 0);
    if incomplete > skipped && run.violations() == 0 {
        run.note(&format!("{} DFS configurations hit the per-configuration cap; not exhaustive", incomplete - skipped));
    }
    run.finish();
}
