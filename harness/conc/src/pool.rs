//! A small hand-rolled thread pool executor (std threads) used as the
//! `Spawn` of the real-thread mode of C28, plus a sleep-based timer future and
//! a yield future. The pool knows when it is quiescent: nothing queued, nothing
//! being polled, no timer thread outstanding.

use std::collections::VecDeque;
use std::future::Future;
use std::pin::Pin;
use std::sync::atomic::{AtomicBool, AtomicUsize, Ordering};
use std::sync::{Arc, Condvar, Mutex};
use std::task::{Context, Poll, Wake, Waker};
use std::thread::JoinHandle;
use std::time::Duration;

use futures_util::future::BoxFuture;

pub struct PoolInner {
    q: Mutex<VecDeque<Arc<PTask>>>,
    cv: Condvar,
    stop: AtomicBool,
    /// tasks queued or being polled
    busy: AtomicUsize,
    /// timer threads that have not fired yet
    timers: AtomicUsize,
    pub panics: Mutex<Vec<String>>,
}

struct PTask {
    fut: Mutex<Option<BoxFuture<'static, ()>>>,
    queued: AtomicBool,
    pool: Arc<PoolInner>,
}

impl Wake for PTask {
    fn wake(self: Arc<Self>) {
        self.wake_by_ref();
    }
    fn wake_by_ref(self: &Arc<Self>) {
        if !self.queued.swap(true, Ordering::SeqCst) {
            self.pool.busy.fetch_add(1, Ordering::SeqCst);
            self.pool.q.lock().unwrap().push_back(self.clone());
            self.pool.cv.notify_one();
        }
    }
}

pub struct Pool {
    pub inner: Arc<PoolInner>,
    handles: Vec<JoinHandle<()>>,
}

impl Pool {
    pub fn new(workers: usize) -> Pool {
        let inner = Arc::new(PoolInner {
            q: Mutex::new(VecDeque::new()),
            cv: Condvar::new(),
            stop: AtomicBool::new(false),
            busy: AtomicUsize::new(0),
            timers: AtomicUsize::new(0),
            panics: Mutex::new(vec![]),
        });
        let mut handles = vec![];
        for _ in 0..workers {
            let p = inner.clone();
            handles.push(std::thread::spawn(move || worker(p)));
        }
        Pool { inner, handles }
    }

    pub fn handle(&self) -> Arc<PoolInner> {
        self.inner.clone()
    }
}

impl Drop for Pool {
    fn drop(&mut self) {
        self.inner.stop.store(true, Ordering::SeqCst);
        self.inner.cv.notify_all();
        for h in self.handles.drain(..) {
            let _ = h.join();
        }
        // drop whatever is still queued
        self.inner.q.lock().unwrap().clear();
    }
}

impl PoolInner {
    pub fn spawn(self: &Arc<Self>, f: impl Future<Output = ()> + Send + 'static) {
        let t = Arc::new(PTask {
            fut: Mutex::new(Some(Box::pin(f))),
            queued: AtomicBool::new(true),
            pool: self.clone(),
        });
        self.busy.fetch_add(1, Ordering::SeqCst);
        self.q.lock().unwrap().push_back(t);
        self.cv.notify_one();
    }

    /// nothing queued, nothing polling, no timer thread outstanding
    pub fn quiescent(&self) -> bool {
        self.busy.load(Ordering::SeqCst) == 0 && self.timers.load(Ordering::SeqCst) == 0
    }

    /// A future that completes after `d` of real time (own sleeping thread).
    pub fn sleep(self: &Arc<Self>, d: Duration) -> SleepFut {
        SleepFut {
            pool: self.clone(),
            dur: d,
            st: Arc::new(SleepState {
                done: AtomicBool::new(false),
                waker: Mutex::new(None),
            }),
            started: false,
        }
    }
}

fn worker(p: Arc<PoolInner>) {
    loop {
        let task = {
            let mut q = p.q.lock().unwrap();
            loop {
                if let Some(t) = q.pop_front() {
                    break Some(t);
                }
                if p.stop.load(Ordering::SeqCst) {
                    break None;
                }
                q = p.cv.wait(q).unwrap();
            }
        };
        let Some(task) = task else { return };
        task.queued.store(false, Ordering::SeqCst);
        {
            let mut slot = task.fut.lock().unwrap_or_else(|e| e.into_inner());
            if let Some(mut fut) = slot.take() {
                let waker = Waker::from(task.clone());
                let r = vh_core::catch(|| {
                    let mut cx = Context::from_waker(&waker);
                    let done = fut.as_mut().poll(&mut cx).is_ready();
                    (done, fut)
                });
                match r {
                    Ok((false, fut)) => *slot = Some(fut),
                    Ok((true, _)) => {}
                    Err(msg) => p.panics.lock().unwrap().push(msg),
                }
            }
        }
        p.busy.fetch_sub(1, Ordering::SeqCst);
    }
}

struct SleepState {
    done: AtomicBool,
    waker: Mutex<Option<Waker>>,
}

pub struct SleepFut {
    pool: Arc<PoolInner>,
    dur: Duration,
    st: Arc<SleepState>,
    started: bool,
}

impl Future for SleepFut {
    type Output = ();
    fn poll(mut self: Pin<&mut Self>, cx: &mut Context<'_>) -> Poll<()> {
        if self.st.done.load(Ordering::SeqCst) {
            return Poll::Ready(());
        }
        *self.st.waker.lock().unwrap() = Some(cx.waker().clone());
        if !self.started {
            self.started = true;
            let st = self.st.clone();
            let pool = self.pool.clone();
            let d = self.dur;
            pool.timers.fetch_add(1, Ordering::SeqCst);
            std::thread::spawn(move || {
                if !d.is_zero() {
                    std::thread::sleep(d);
                } else {
                    std::thread::yield_now();
                }
                st.done.store(true, Ordering::SeqCst);
                let w = st.waker.lock().unwrap().take();
                if let Some(w) = w {
                    w.wake(); // enqueues (busy += 1) before the timer count drops
                }
                pool.timers.fetch_sub(1, Ordering::SeqCst);
            });
        }
        if self.st.done.load(Ordering::SeqCst) {
            return Poll::Ready(());
        }
        Poll::Pending
    }
}

/// Returns Pending `n` times, waking itself each time (the task goes to the
/// back of the pool queue and may continue on another worker).
pub struct YieldN(pub u32);

impl Future for YieldN {
    type Output = ();
    fn poll(mut self: Pin<&mut Self>, cx: &mut Context<'_>) -> Poll<()> {
        if self.0 == 0 {
            return Poll::Ready(());
        }
        self.0 -= 1;
        cx.waker().wake_by_ref();
        Poll::Pending
    }
}
