//! vh-conc: schedule-controlled and real-thread concurrency checks.
//!   vh-conc C28 <quick|thorough> [--replay <path>]
//!   vh-conc C29 <quick|thorough> [--replay <path>]
//!   vh-conc selftest      (feeds hand-made bad histories to the DataLoader monitor)

mod c28;
mod c29;
mod dl;
mod pool;

fn main() {
    let id = std::env::args().nth(1).unwrap_or_default();
    match id.as_str() {
        "C28" => c28::main(),
        "C29" => c29::main(),
        "selftest" => {
            let (lines, ok) = dl::selftest();
            for l in &lines {
                println!("{l}");
            }
            println!("selftest: {}", if ok { "all hand-made histories judged as expected" } else { "FAILED" });
            std::process::exit(if ok { 0 } else { 2 });
        }
        _ => {
            println!("INCONCLUSIVE property={id} reason=vh-conc has no check for this property yet");
            std::process::exit(2);
        }
    }
}
