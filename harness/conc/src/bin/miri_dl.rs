//! Tiny DataLoader workload for the Miri supplement of C28 (UB / data-race
//! detector over the `scc` paths the DataLoader reaches). Three client threads
//! load overlapping keys through one shared DataLoader; spawned tasks run on
//! their own threads with a park/unpark `block_on`; the timer is a yielding
//! future. Prints "miri_dl ok" when every result is right.

use std::collections::HashMap;
use std::future::Future;
use std::pin::Pin;
use std::sync::atomic::{AtomicU32, Ordering};
use std::sync::{Arc, Mutex};
use std::task::{Context, Poll, Wake, Waker};
use std::thread::{JoinHandle, Thread};
use std::time::Duration;

use async_graphql::dataloader::{DataLoader, HashMapCache, Loader};
use async_graphql::runtime::Timer;
use futures_util::future::BoxFuture;
use futures_util::task::{FutureObj, Spawn, SpawnError};

struct Unpark(Thread);
impl Wake for Unpark {
    fn wake(self: Arc<Self>) {
        self.0.unpark();
    }
}

fn block_on<T>(f: impl Future<Output = T>) -> T {
    let mut f = std::pin::pin!(f);
    let w = Waker::from(Arc::new(Unpark(std::thread::current())));
    let mut cx = Context::from_waker(&w);
    loop {
        if let Poll::Ready(v) = f.as_mut().poll(&mut cx) {
            return v;
        }
        std::thread::park_timeout(Duration::from_millis(5));
    }
}

#[derive(Clone)]
struct ThreadSpawn(Arc<Mutex<Vec<JoinHandle<()>>>>);
impl Spawn for ThreadSpawn {
    fn spawn_obj(&self, future: FutureObj<'static, ()>) -> Result<(), SpawnError> {
        let h = std::thread::spawn(move || block_on(future));
        self.0.lock().unwrap().push(h);
        Ok(())
    }
}

struct Yields(u32);
impl Future for Yields {
    type Output = ();
    fn poll(mut self: Pin<&mut Self>, cx: &mut Context<'_>) -> Poll<()> {
        if self.0 == 0 {
            return Poll::Ready(());
        }
        self.0 -= 1;
        std::thread::yield_now();
        cx.waker().wake_by_ref();
        Poll::Pending
    }
}

struct YieldTimer;
impl Timer for YieldTimer {
    fn delay(&self, _d: Duration) -> BoxFuture<'static, ()> {
        Box::pin(Yields(3))
    }
}

struct L(AtomicU32);
impl Loader<u8> for L {
    type Value = (u8, u32);
    type Error = ();
    async fn load(&self, keys: &[u8]) -> Result<HashMap<u8, (u8, u32)>, ()> {
        let b = self.0.fetch_add(1, Ordering::SeqCst);
        Yields(1).await;
        Ok(keys.iter().map(|k| (*k, (*k, b))).collect())
    }
}

fn main() {
    let handles = Arc::new(Mutex::new(Vec::new()));
    let dl = Arc::new(
        DataLoader::with_cache(L(AtomicU32::new(0)), ThreadSpawn(handles.clone()), YieldTimer, HashMapCache::default())
            .max_batch_size(3),
    );
    let mut clients = vec![];
    for (i, keys) in [vec![1u8, 2], vec![2u8, 3], vec![1u8]].into_iter().enumerate() {
        let dl = dl.clone();
        clients.push(std::thread::spawn(move || {
            let got = if i == 2 {
                block_on(dl.load_one(keys[0])).unwrap().into_iter().map(|v| (keys[0], v)).collect::<HashMap<_, _>>()
            } else {
                block_on(dl.load_many(keys.clone())).unwrap()
            };
            assert_eq!(got.len(), keys.len());
            for k in &keys {
                assert_eq!(got[k].0, *k);
            }
        }));
    }
    for c in clients {
        c.join().unwrap();
    }
    block_on(dl.feed_one(9u8, (9, 99)));
    assert_eq!(block_on(dl.load_one(9u8)).unwrap(), Some((9, 99)));
    dl.clear_one(&9u8);
    assert!(block_on(dl.get_cached_values::<u8>()).len() >= 3);
    loop {
        let h = handles.lock().unwrap().pop();
        match h {
            Some(h) => h.join().unwrap(),
            None => break,
        }
    }
    println!("miri_dl ok");
}
